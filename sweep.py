#!/usr/bin/env python3
"""Applies every seeded change (seeded/<id>/patch.diff) to /repo in turn, runs the property's check (quick tier by default),
undoes it, and records the verdict in seeded/<id>/meta.json (check_result_on_repo). Sequential; /repo must be clean."""
import json, os, subprocess, sys
sys.path.insert(0, os.path.dirname(os.path.abspath(__file__)))
import seedtool
ROOT = os.path.dirname(os.path.abspath(__file__))
tier = sys.argv[1] if len(sys.argv) > 1 else "quick"
only = set(sys.argv[2:])
head = subprocess.run("git -C /repo rev-parse --short HEAD", shell=True, capture_output=True, text=True).stdout.strip()
missed = []
for sid in sorted(os.listdir(os.path.join(ROOT, "seeded"))):
    d = os.path.join(ROOT, "seeded", sid)
    if not os.path.isfile(os.path.join(d, "patch.diff")) or (only and sid not in only):
        continue
    prop = sid.split("-")[0]
    r = seedtool.detect(prop, os.path.join(d, "patch.diff"), tier)
    r["repo_head"] = head
    r["tier"] = tier
    mp = os.path.join(d, "meta.json")
    meta = json.load(open(mp))
    meta["check_result_on_repo"] = r
    json.dump(meta, open(mp, "w"), indent=1)
    print(sid, "detected=%s exit=%s wall=%s" % (r.get("detected"), r.get("exit"), r.get("wall_s")), r.get("error", ""), flush=True)
    if not r.get("detected"):
        missed.append(sid)
print("missed:", missed)
