package guardiansets

import (
	"context"
	"sync"
	"time"

	"github.com/alephium/wormhole-fork/explorer-backend/pkg/zzverif"
	"github.com/alephium/wormhole-fork/node/pkg/common"
	ethcommon "github.com/ethereum/go-ethereum/common"
	"go.uber.org/zap"
)

func verifSets(from, to int) []*common.GuardianSet {
	var out []*common.GuardianSet
	for i := from; i <= to; i++ {
		out = append(out, &common.GuardianSet{Index: uint32(i), Keys: []ethcommon.Address{{19: byte(i + 1)}}})
	}
	return out
}

func verifNew(n int) *GuardianSets {
	c := make(chan *common.GuardianSet, 16)
	return NewGuardianSets(verifSets(0, n-1), "", zap.NewNop(), time.Hour, ethcommon.Address{}, c)
}

// C19: after any sequence of up to two appends - each a contiguous batch [from..to] as the chain walk returns it, which
// may overlap what is already known by any amount - the set returned for index i is the set with index i.
func VerifC19_Appends() {
	n := zzverif.Len("known", 1, 2, 3)
	gs := verifNew(n)
	cur := n - 1
	for r := 0; r < zzverif.Len("appends", 1, 2); r++ {
		from, to := int(zzverif.U8("from")), int(zzverif.U8("to")) // symbolic batch bounds
		zzverif.Assume(from <= to && to <= 6 && from <= cur+1)     // a walk never starts beyond the first unknown index
		_ = gs.updateGuardianSets(verifSets(from, to))
		if to > cur {
			cur = to
		}
	}
	zzverif.Assert(gs.currentGuardianSetIndex == cur, "current-index-is-the-highest-seen")
	zzverif.Assert(len(gs.guardianSetLists) == cur+1, "list-has-one-entry-per-index")
	for i := 0; i <= cur && i < len(gs.guardianSetLists); i++ {
		zzverif.Assert(int(gs.guardianSetLists[i].Index) == i, "list-position-equals-set-index")
		s, err := gs.GetGuardianSet(context.Background(), i)
		zzverif.Assert(err == nil && s != nil && int(s.Index) == i, "lookup-returns-the-set-with-that-index")
	}
	zzverif.Assert(int(gs.GetCurrentGuardianSet().Index) == cur, "current-set-has-the-current-index")
	zzverif.Reach("end")
}

// C19: a lookup that runs WHILE newer sets are being appended (one reader against one append, interleaved after every
// store the writer performs to the shared object) never panics and never returns a set with another index.
func VerifC19_LookupDuringAppend() {
	n := zzverif.Len("known", 1, 2)
	add := zzverif.Len("add", 1, 2)
	gs := verifNew(n)
	i := zzverif.Len("lookup", 0, 1, 2, 3)
	zzverif.Assume(i <= n-1+add)
	batch := verifSets(n, n-1+add)
	reader := func() {
		// only indexes the reader can see as known are served without a chain query; others would dial the chain (error)
		zzverif.NoPanic(func() {
			s, err := gs.GetGuardianSet(context.Background(), i)
			if err == nil {
				zzverif.Reach("served")
				zzverif.Assert(s != nil && int(s.Index) == i, "concurrent-lookup-returns-the-set-with-that-index")
			}
		})
	}
	if zzverif.Symbolic() {
		zzverif.Interleave(func() { _ = gs.updateGuardianSets(batch) }, reader)
		reader() // and once after the append completed
		zzverif.Reach("end")
		return
	}
	// native replay: stress (the window is a few instructions wide): a reader spinning on lookups while the append runs
	var failed interface{}
	for round := 0; round < 200000 && failed == nil; round++ {
		gs = verifNew(n)
		var wg sync.WaitGroup
		wg.Add(2)
		start := make(chan struct{})
		go func() { defer wg.Done(); <-start; _ = gs.updateGuardianSets(batch) }()
		go func() {
			defer wg.Done()
			defer func() {
				if r := recover(); r != nil {
					failed = r
				}
			}()
			<-start
			for k := 0; k < 50; k++ {
				reader()
			}
		}()
		close(start)
		wg.Wait()
	}
	if failed != nil {
		panic(failed) // re-raised in the harness goroutine so that the replay test sees the assertion
	}
}

// C19: two updaters delivering overlapping batches CONCURRENTLY (the periodic refresh and the on-demand fetch of a
// lookup for a future index both end in updateGuardianSets), pre-empted before every mutex operation: afterwards the
// list still has exactly one entry per index and index i maps to set i.
func VerifC19_ConcurrentAppends() {
	n := zzverif.Len("known", 1, 2)
	addA, addB := zzverif.Len("addA", 1, 2), zzverif.Len("addB", 1, 2)
	cur := n - 1 + addA
	if addB > addA {
		cur = n - 1 + addB
	}
	check := func(gs *GuardianSets) {
		zzverif.Assert(gs.currentGuardianSetIndex == cur, "current-index-is-the-highest-seen")
		zzverif.Assert(len(gs.guardianSetLists) == cur+1, "list-has-one-entry-per-index")
		for i := 0; i <= cur && i < len(gs.guardianSetLists); i++ {
			zzverif.Assert(int(gs.guardianSetLists[i].Index) == i, "list-position-equals-set-index")
		}
	}
	if zzverif.Symbolic() {
		gs := verifNew(n)
		var done [2]bool
		zzverif.Preemptive(true)
		go func() { _ = gs.updateGuardianSets(verifSets(n, n-1+addA)); done[0] = true }()
		go func() { _ = gs.updateGuardianSets(verifSets(n, n-1+addB)); done[1] = true }()
		zzverif.Settle()
		zzverif.Preemptive(false)
		zzverif.Assert(done[0] && done[1], "both-updaters-return")
		check(gs)
		zzverif.Reach("end")
		return
	}
	// native replay: stress - both updaters released together, many rounds
	for round := 0; round < 300000; round++ {
		gs := verifNew(n)
		var wg sync.WaitGroup
		wg.Add(2)
		start := make(chan struct{})
		go func() { defer wg.Done(); <-start; _ = gs.updateGuardianSets(verifSets(n, n-1+addA)) }()
		go func() { defer wg.Done(); <-start; _ = gs.updateGuardianSets(verifSets(n, n-1+addB)) }()
		close(start)
		wg.Wait()
		check(gs)
	}
}

// C19: a lookup of a NOT YET KNOWN index walks the chain (the network call is replaced by a scenario function through a
// hook prologue: it returns the sets [from..to] it was asked for); while that call is under way the periodic refresh may
// deliver further sets. Whatever happened meanwhile, the set returned for index i is the set with index i (or an error).
func VerifC19_FetchFuture() {
	n := zzverif.Len("known", 1, 2)
	gs := verifNew(n)
	want := n - 1 + zzverif.Len("ahead", 1, 2) // the index a gossiped VAA names
	meanwhile := zzverif.Len("meanwhile", 0, 1, 2, 3) // how many sets the periodic refresh appends during the fetch
	short := zzverif.Len("shortAnswer", 0, 1) == 1  // the node answers with fewer sets than asked for
	calls := 0
	zzverif.Hooks["GuardianSets.getGuardianSetsRange"] = func(ctx context.Context, fromIndex uint32, toIndex uint32) ([]*common.GuardianSet, error) {
		calls++
		zzverif.Assert(int(fromIndex) == n && int(toIndex) == want, "walk-asks-for-the-unknown-range")
		if meanwhile > 0 {
			_ = gs.updateGuardianSets(verifSets(n, n-1+meanwhile))
		}
		to := int(toIndex)
		if short {
			to--
		}
		return verifSets(int(fromIndex), to), nil
	}
	defer delete(zzverif.Hooks, "GuardianSets.getGuardianSetsRange")
	s, err := gs.GetGuardianSet(context.Background(), want)
	zzverif.Assert(calls == 1, "unknown-index-is-fetched-once")
	if err == nil {
		zzverif.Reach("served")
		zzverif.Assert(s != nil && int(s.Index) == want, "lookup-returns-the-set-with-that-index")
	} else {
		zzverif.Reach("refused")
		known := n - 1 + meanwhile
		if !short && want > known {
			known = want
		}
		if short && want-1 > known {
			known = want - 1
		}
		zzverif.Assert(want > known, "lookup-of-a-known-index-does-not-fail")
	}
	for i := 0; i < len(gs.guardianSetLists); i++ {
		zzverif.Assert(int(gs.guardianSetLists[i].Index) == i, "list-position-equals-set-index")
	}
	zzverif.Reach("end")
}
