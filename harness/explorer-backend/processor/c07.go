package processor

import (
	"github.com/alephium/wormhole-fork/explorer-backend/pkg/zzverif"
	"github.com/alephium/wormhole-fork/node/pkg/processor"
)

// C07: the quorum function the explorer links (node module from the module cache, not /repo/node) is the same formula.
func VerifC07_ExplorerQuorum() {
	n := int(zzverif.U8("n"))
	q := processor.CalculateQuorum(n)
	zzverif.Assert(q == 2*n/3+1, "explorer-formula")
	zzverif.Reach("end")
}
