package processor

import (
	"context"
	"errors"
	"time"

	"github.com/alephium/wormhole-fork/explorer-backend/deduplicator"
	"github.com/alephium/wormhole-fork/explorer-backend/guardiansets"
	"github.com/alephium/wormhole-fork/explorer-backend/pkg/zzverif"
	"github.com/alephium/wormhole-fork/node/pkg/common"
	"github.com/alephium/wormhole-fork/node/pkg/vaa"
	"github.com/eko/gocache/v3/store"
	ethcommon "github.com/ethereum/go-ethereum/common"
	"go.uber.org/zap"
)

// the dedup cache, implemented by a plain map (the production one is an in-memory go-cache behind the same interface)
type verifCache struct{ m map[string]bool }

func (c *verifCache) Get(ctx context.Context, key any) (bool, error) {
	v, ok := c.m[key.(string)]
	if !ok {
		return false, errors.New("value not found in store")
	}
	return v, nil
}
func (c *verifCache) Set(ctx context.Context, key any, object bool, options ...store.Option) error {
	c.m[key.(string)] = object
	return nil
}
func (c *verifCache) Delete(ctx context.Context, key any) error { delete(c.m, key.(string)); return nil }
func (c *verifCache) Invalidate(ctx context.Context, options ...store.InvalidateOption) error {
	return nil
}
func (c *verifCache) Clear(ctx context.Context) error { c.m = map[string]bool{}; return nil }
func (c *verifCache) GetType() string                 { return "verif" }

func verifExplorerSets(nsets int) []*common.GuardianSet {
	sets := make([]*common.GuardianSet, nsets)
	for i := range sets {
		n := zzverif.Len("setsize", 1, 2, 3)
		keys := make([]ethcommon.Address, n)
		for j := range keys {
			keys[j] = ethcommon.Address(zzverif.AddrOf(3*i + j))
		}
		sets[i] = &common.GuardianSet{Keys: keys, Index: uint32(i)}
	}
	return sets
}

// C19: a gossiped VAA is queued for persistence only if it verifies, with quorum, against the guardian set WHOSE INDEX
// IT CARRIES (an old one, the current one; a future or absurd index is an error); a VAA whose hand-off failed because the
// queue was full is not marked as seen, so a later copy is ingested.
func VerifC19_Gate() {
	nsets := zzverif.Len("nsets", 1, 2, 3)
	sets := verifExplorerSets(nsets)
	guardianSetC := make(chan *common.GuardianSet, 8)
	gs := guardiansets.NewGuardianSets(sets, "", zap.NewNop(), time.Hour, ethcommon.Address{}, guardianSetC)
	queue := make(chan *Message, 1)
	cache := &verifCache{m: map[string]bool{}}
	consumer := NewVAAGossipConsumer(gs, deduplicator.New(cache, zap.NewNop()), queue, zap.NewNop())

	named := zzverif.Len("named", 0, 1, 2, 3, 70000) // index the VAA carries
	signSet := zzverif.Len("signSet", 0, 1, 2)       // whose keys sign it
	zzverif.Assume(signSet < nsets)
	v := &vaa.VAA{Version: 1, GuardianSetIndex: uint32(named), Timestamp: time.Unix(int64(zzverif.U32("ts")), 0), Nonce: zzverif.U32("nonce"), Sequence: zzverif.U64("seq"),
		EmitterChain: vaa.ChainID(zzverif.U16("ec")), TargetChain: vaa.ChainID(zzverif.U16("tc")), Payload: zzverif.Bytes("payload", 1)}
	// the dedup key is the decimal message id: one-digit chain ids and sequence keep its rendering fork-free
	zzverif.Assume(v.EmitterChain < 10 && v.TargetChain < 10 && v.Sequence < 10)
	d := v.SigningMsg()
	k := zzverif.Len("nsig", 0, 1, 2, 3)
	for i := 0; i < k; i++ {
		who := zzverif.Len("signer", 0, 1, 2) // position in signSet
		s := &vaa.Signature{Index: zzverif.U8("idx")}
		copy(s.Signature[:], zzverif.SignBy(3*signSet+who, d[:]))
		v.Signatures = append(v.Signatures, s)
	}
	raw, _ := v.Marshal()
	full := zzverif.Len("queueFull", 0, 1) == 1
	if full {
		queue <- &Message{}
	}
	ctx := context.Background()
	var err error
	zzverif.NoPanic(func() { err = consumer.Push(ctx, v, raw) })
	queued := (full && len(queue) == 1 && false) || (!full && len(queue) == 1)
	if err == nil {
		zzverif.Reach("accepted")
		zzverif.Assert(!full && queued, "accepted-means-queued")
	} else {
		zzverif.Reach("rejected")
		zzverif.Assert(!queued, "rejected-not-queued")
	}
	if queued {
		zzverif.Assert(named < nsets, "queued-only-for-a-known-set-index")
		if named < nsets {
			keys := sets[named].Keys
			zzverif.Assert(len(v.Signatures) >= 2*len(keys)/3+1, "queued-only-with-quorum-of-the-named-set")
			zzverif.Assert(v.VerifySignatures(keys), "queued-only-if-verified-against-the-named-set")
		}
		m := <-queue
		zzverif.Assert(m.vaa == v, "queued-message-is-the-vaa")
		// the same VAA again is not ingested twice
		zzverif.NoPanic(func() { _ = consumer.Push(ctx, v, raw) })
		zzverif.Assert(len(queue) == 0, "duplicate-not-queued-again")
	} else if full && named < nsets && len(v.Signatures) >= 2*len(sets[named].Keys)/3+1 && v.VerifySignatures(sets[named].Keys) {
		// a valid VAA met a full queue: the hand-off failed, so it must not be marked as seen ...
		zzverif.Reach("handoff-failed")
		zzverif.Assert(err != nil, "full-queue-is-an-error")
		<-queue
		var err2 error
		zzverif.NoPanic(func() { err2 = consumer.Push(ctx, v, raw) })
		// ... and a later copy is ingested
		zzverif.Assert(err2 == nil && len(queue) == 1, "later-copy-ingested-after-failed-handoff")
	}
}
