package ethereum

import (
	"context"
	"errors"
	"math/big"
	"sync/atomic"
	"time"

	"go.uber.org/zap"

	"github.com/alephium/wormhole-fork/node/pkg/common"
	ethabi "github.com/alephium/wormhole-fork/node/pkg/ethereum/abi"
	gossipv1 "github.com/alephium/wormhole-fork/node/pkg/proto/gossip/v1"
	"github.com/alephium/wormhole-fork/node/pkg/vaa"
	"github.com/alephium/wormhole-fork/node/pkg/zzverif"
	ethereum "github.com/ethereum/go-ethereum"
	ethcommon "github.com/ethereum/go-ethereum/common"
	"github.com/ethereum/go-ethereum/common/hexutil"
	ethtypes "github.com/ethereum/go-ethereum/core/types"
	"github.com/ethereum/go-ethereum/event"
	"github.com/ethereum/go-ethereum/rpc"
)

var verifCore = ethcommon.Address{0: 0xC0, 19: 0x01}
var verifOther = ethcommon.Address{0: 0xEE, 19: 0x02}

type verifSub struct{ errC chan error }

func (s *verifSub) Err() <-chan error { return s.errC }
func (s *verifSub) Unsubscribe()      {}

// scripted EVM node: the scenario decides what every call returns
type verifNode struct {
	logSink   chan<- *ethabi.AbiLogMessagePublished
	headSink  chan<- *NewBlock
	receipt   func(tx ethcommon.Hash) (*ethtypes.Receipt, error)
	head      uint64
	latest    uint64
	latestSet bool
	headErr   bool
	calls     []string
	parseOf   map[int]*ethabi.AbiLogMessagePublished
}

func (n *verifNode) NetworkName() string              { return "verif" }
func (n *verifNode) ContractAddress() ethcommon.Address { return verifCore }
func (n *verifNode) GetCurrentGuardianSetIndex(ctx context.Context) (uint32, error) {
	return 0, nil
}
func (n *verifNode) GetGuardianSet(ctx context.Context, index uint32) (ethabi.StructsGuardianSet, error) {
	return ethabi.StructsGuardianSet{Keys: []ethcommon.Address{{1}}}, nil
}
func (n *verifNode) WatchLogMessagePublished(ctx context.Context, sink chan<- *ethabi.AbiLogMessagePublished) (event.Subscription, error) {
	n.logSink = sink
	return &verifSub{make(chan error)}, nil
}
func (n *verifNode) TransactionReceipt(ctx context.Context, tx ethcommon.Hash) (*ethtypes.Receipt, error) {
	n.calls = append(n.calls, "receipt")
	return n.receipt(tx)
}
func (n *verifNode) TimeOfBlockByHash(ctx context.Context, hash ethcommon.Hash) (uint64, error) {
	return 1700000000, nil
}
func (n *verifNode) ParseLogMessagePublished(log ethtypes.Log) (*ethabi.AbiLogMessagePublished, error) {
	ev := n.parseOf[int(log.Index)]
	if ev == nil {
		return nil, errors.New("cannot parse")
	}
	return ev, nil
}
func (n *verifNode) SubscribeForBlocks(ctx context.Context, sink chan<- *NewBlock) (ethereum.Subscription, error) {
	n.headSink = sink
	return &verifSub{make(chan error)}, nil
}
func (n *verifNode) RawCallContext(ctx context.Context, result interface{}, method string, args ...interface{}) error {
	// the node's LATEST block number (eth_blockNumber): at or beyond the head the watcher is configured to read (on chains
	// read at finalized height the two differ by the finality lag)
	if r, ok := result.(*hexutil.Uint64); ok && method == "eth_blockNumber" && n.latestSet {
		n.calls = append(n.calls, "latest")
		*r = hexutil.Uint64(n.latest)
		return nil
	}
	return errors.New("not scripted")
}

// starts the REAL Watcher.Run against the scripted node: the dial and the block poller are replaced through hook
// prologues (NewEthereumConnector, NewBlockPollConnector, BlockPollConnector.getBlock/SubscribeForBlocks), everything
// after the prologue of Run - the three service loops - is the real code.
func verifStartWatcher(ctx context.Context, node *verifNode, wait bool) *Watcher {
	poll := uint(1)
	w := NewEthWatcher("ws://unused", verifCore, "verif", "verif-ready", vaa.ChainIDEthereum, make(chan *common.MessagePublication, 8), make(chan *common.GuardianSet, 8),
		make(chan *gossipv1.ObservationRequest, 1), true, &poll, wait)
	zzverif.Hooks["func.NewEthereumConnector"] = func(ctx context.Context, networkName, rawUrl string, address ethcommon.Address, logger *zap.Logger) (*EthereumConnector, error) {
		return nil, nil
	}
	zzverif.Hooks["func.NewBlockPollConnector"] = func(ctx context.Context, baseConnector Connector, delay time.Duration, useFinalized bool) (*BlockPollConnector, error) {
		return &BlockPollConnector{Connector: node, enabled: &atomic.Bool{}}, nil
	}
	zzverif.Hooks["BlockPollConnector.SubscribeForBlocks"] = func(ctx context.Context, sink chan<- *NewBlock) (ethereum.Subscription, error) {
		return node.SubscribeForBlocks(ctx, sink)
	}
	zzverif.Hooks["BlockPollConnector.getBlock"] = func(ctx context.Context, logger *zap.Logger, number *big.Int, safe bool) (*NewBlock, error) {
		node.calls = append(node.calls, "head")
		if node.headErr {
			return nil, errors.New("node API error")
		}
		return &NewBlock{Number: new(big.Int).SetUint64(node.head)}, nil
	}
	go func() { _ = w.Run(ctx) }()
	zzverif.Settle()
	return w
}

var verifTx = ethcommon.Hash{0: 0xAA, 31: 0x01}
var verifBlockHash = ethcommon.Hash{0: 0xB0, 31: 0x01}
var verifOtherBlock = ethcommon.Hash{0: 0xB0, 31: 0x02}

// C10, primary path: one log from the subscription (block height H, consistency level cl), then up to two head events
// (any number, safe or not). At each head the node answers the receipt lookup with: nothing / ErrNoResult / "not found" /
// another error / a receipt with any status, in the same or another block. The message is forwarded only when the head
// is deep enough and the receipt still confirms it - and then it IS forwarded, at once, however far the head jumped;
// it is forwarded at most once; orphaned / re-mined / failed transactions are dropped; transient errors keep it pending.
func VerifC10_Main() { zzverif.Supervised(verifC10Main) }

func verifC10Main(ctx context.Context) {
	wait := zzverif.Len("waitForConfirmations", 1, 0) == 1
	node := &verifNode{}
	cctx, cancel := context.WithCancel(ctx)
	defer cancel()
	w := verifStartWatcher(cctx, node, wait)
	zzverif.Assert(node.logSink != nil && node.headSink != nil, "watcher-subscribed")
	if node.logSink == nil || node.headSink == nil {
		return
	}
	H, cl := zzverif.U64("H"), zzverif.U8("cl")
	zzverif.Assume(H < 1<<40)
	ev := &ethabi.AbiLogMessagePublished{Sender: ethcommon.Address{19: 7}, TargetChainId: 2, Sequence: 55, Nonce: 1, Payload: []byte{1, 2}, ConsistencyLevel: cl,
		Raw: ethtypes.Log{Address: verifCore, TxHash: verifTx, BlockHash: verifBlockHash, BlockNumber: H}}
	zzverif.MustNotBlock(func() { node.logSink <- ev; zzverif.Settle() })
	forwarded := 0
	pending := true
	heads := zzverif.Len("heads", 1, 2)
	for k := 0; k < heads; k++ {
		number := zzverif.U64("head")
		zzverif.Assume(number < 1<<41)
		safe := zzverif.Len("safe", 0, 1) == 1
		kind := zzverif.Len("receipt", 0, 1, 2, 3, 4)
		status := zzverif.U64("status")
		sameBlock := zzverif.Len("sameBlock", 1, 0) == 1
		lookups := 0
		node.receipt = func(tx ethcommon.Hash) (*ethtypes.Receipt, error) {
			lookups++
			switch kind {
			case 0:
				return nil, nil
			case 1:
				return nil, rpc.ErrNoResult
			case 2:
				return nil, errors.New("not found")
			case 3:
				return &ethtypes.Receipt{Status: 1, BlockHash: verifBlockHash}, errors.New("connection reset")
			}
			bh := verifBlockHash
			if !sameBlock {
				bh = verifOtherBlock
			}
			return &ethtypes.Receipt{Status: status, BlockHash: bh, BlockNumber: new(big.Int).SetUint64(H)}, nil
		}
		zzverif.MustNotBlock(func() { node.headSink <- &NewBlock{Number: new(big.Int).SetUint64(number), Hash: ethcommon.Hash{1}, Safe: safe}; zzverif.Settle() })
		conf := uint64(0)
		if wait && !safe {
			conf = uint64(cl)
		}
		ready := H+conf <= number
		good := kind == 4 && status == 1 && sameBlock
		got := 0
		for len(w.msgChan) > 0 {
			m := <-w.msgChan
			got++
			zzverif.Assert(m.Sequence == 55 && m.TxHash == verifTx && m.ConsistencyLevel == cl, "forwarded-message-is-the-log")
		}
		forwarded += got
		zzverif.Assert(forwarded <= 1, "forwarded-at-most-once")
		if got > 0 {
			zzverif.Reach("forwarded")
			zzverif.Assert(pending, "forwarded-only-while-pending")
			zzverif.Assert(ready, "forwarded-only-when-the-seen-head-is-deep-enough")
			zzverif.Assert(good && lookups > 0, "forwarded-only-when-the-receipt-still-confirms-it")
			pending = false
		} else if pending {
			if ready && good {
				zzverif.Assert(false, "ready-and-confirmed-message-is-forwarded-however-far-the-head-advanced")
			}
			if ready && (kind <= 2 || (kind == 4 && (status != 1 || !sameBlock))) {
				pending = false // orphaned, failed or re-mined: dropped for good
				zzverif.Reach("dropped")
			}
			if H+conf+60 <= number && !(ready && good) {
				pending = false // abandonment window over (allowed once the node failed to confirm it)
			}
		}
		w.pendingMu.Lock()
		np := len(w.pending)
		w.pendingMu.Unlock()
		if pending {
			zzverif.Reach("still-pending")
			zzverif.Assert(np == 1, "transient-failure-or-shallow-head-keeps-the-message")
		} else {
			zzverif.Assert(np == 0, "settled-message-removed-from-pending")
		}
	}
	zzverif.Reach("end")
}

// C10, re-observation: the transaction's receipt has up to two logs, each from the core contract or another one, with
// the message topic or another one; the head is read BEFORE the receipt. Forwarded messages come only from core-contract
// logs with the message topic in a successful transaction that is deep enough under the head read first.
func VerifC10_Reobserve() { zzverif.Supervised(verifC10Reobserve) }

func verifC10Reobserve(ctx context.Context) {
	wait := zzverif.Len("waitForConfirmations", 1, 0) == 1
	node := &verifNode{parseOf: map[int]*ethabi.AbiLogMessagePublished{}}
	cctx, cancel := context.WithCancel(ctx)
	defer cancel()
	w := verifStartWatcher(cctx, node, wait)
	node.head = zzverif.U64("head")
	node.headErr = zzverif.Len("headErr", 0, 1) == 1
	node.latest, node.latestSet = zzverif.U64("latest"), true
	zzverif.Assume(node.latest >= node.head && node.latest < 1<<42)
	blockNumber := zzverif.U64("blockNumber")
	zzverif.Assume(node.head < 1<<41 && blockNumber < 1<<40)
	status := zzverif.U64("status")
	nlogs := zzverif.Len("logs", 0, 1, 2)
	type lg struct {
		core, topic bool
		cl          uint8
	}
	logs := make([]lg, nlogs)
	rc := &ethtypes.Receipt{Status: status, BlockHash: verifBlockHash, BlockNumber: new(big.Int).SetUint64(blockNumber)}
	for i := range logs {
		logs[i] = lg{core: zzverif.Len("core", 1, 0) == 1, topic: zzverif.Len("topic", 1, 0) == 1, cl: zzverif.U8("cl")}
		addr, topic := verifOther, ethcommon.Hash{9}
		if logs[i].core {
			addr = verifCore
		}
		if logs[i].topic {
			topic = LogMessagePublishedTopic
		}
		rc.Logs = append(rc.Logs, &ethtypes.Log{Address: addr, Topics: []ethcommon.Hash{topic}, Index: uint(i), TxHash: verifTx, BlockHash: verifBlockHash, BlockNumber: blockNumber})
		node.parseOf[i] = &ethabi.AbiLogMessagePublished{Sender: ethcommon.Address{19: 7}, TargetChainId: 2, Sequence: uint64(70 + i), Nonce: 1, Payload: []byte{1}, ConsistencyLevel: logs[i].cl,
			Raw: ethtypes.Log{TxHash: verifTx, BlockHash: verifBlockHash, BlockNumber: blockNumber}}
	}
	receiptErr := zzverif.Len("receiptErr", 0, 1) == 1
	node.receipt = func(tx ethcommon.Hash) (*ethtypes.Receipt, error) {
		if receiptErr {
			return nil, errors.New("node API error")
		}
		return rc, nil
	}
	node.calls = nil
	zzverif.MustNotBlock(func() {
		w.obsvReqC <- &gossipv1.ObservationRequest{ChainId: uint32(vaa.ChainIDEthereum), TxHash: verifTx[:]}
		zzverif.Settle()
	})
	n := 0
	for len(w.msgChan) > 0 {
		m := <-w.msgChan
		n++
		zzverif.Reach("forwarded")
		i := int(m.Sequence) - 70
		zzverif.Assert(i >= 0 && i < nlogs, "forwarded-message-is-a-log-of-the-transaction")
		if i < 0 || i >= nlogs {
			continue
		}
		zzverif.Assert(logs[i].core, "forwarded-only-logs-of-the-core-contract")
		zzverif.Assert(logs[i].topic, "forwarded-only-logs-with-the-message-topic")
		zzverif.Assert(status == 1 && !receiptErr && !node.headErr, "forwarded-only-from-a-successful-transaction")
		conf := uint64(0)
		if wait {
			conf = uint64(logs[i].cl)
		}
		zzverif.Assert(blockNumber+conf <= node.head && node.head != 0, "forwarded-only-when-deep-enough-under-the-head")
		zzverif.Assert(len(node.calls) >= 2 && node.calls[0] == "head" && node.calls[1] == "receipt", "head-read-before-the-receipt")
	}
	if n == 0 {
		zzverif.Reach("nothing-forwarded")
	}
}

var verifTx2 = ethcommon.Hash{0: 0xAA, 31: 0x02}

// C10, two pending messages: two logs (different transactions, heights and consistency levels, in the same block or
// in two blocks) wait together; up to two head events; per head each transaction's receipt lookup is answered
// independently (nothing / transient error / receipt with any status in the same or another block). Each message is
// judged on its own head depth and its own receipt: the fate of one never decides the other, whatever the order in
// which the watcher walks its pending set.
func VerifC10_Two() { zzverif.Supervised(verifC10Two) }

func verifC10Two(ctx context.Context) {
	wait := zzverif.Len("waitForConfirmations", 1, 0) == 1
	node := &verifNode{}
	cctx, cancel := context.WithCancel(ctx)
	defer cancel()
	w := verifStartWatcher(cctx, node, wait)
	if node.logSink == nil || node.headSink == nil {
		zzverif.Assert(false, "watcher-subscribed")
		return
	}
	var H [2]uint64
	var cl [2]uint8
	H[0], H[1] = zzverif.U64("H0"), zzverif.U64("H1")
	cl[0], cl[1] = zzverif.U8("cl0"), zzverif.U8("cl1")
	zzverif.Assume(H[0] < 1<<40)
	zzverif.Assume(H[1] < 1<<40)
	txs := [2]ethcommon.Hash{verifTx, verifTx2}
	blocks := [2]ethcommon.Hash{verifBlockHash, verifBlockHash}
	if zzverif.Len("oneBlock", 1, 0) == 0 {
		blocks[1] = verifOtherBlock
	}
	for i := 0; i < 2; i++ {
		ev := &ethabi.AbiLogMessagePublished{Sender: ethcommon.Address{19: 7}, TargetChainId: 2, Sequence: uint64(55 + i), Nonce: 1, Payload: []byte{1, 2}, ConsistencyLevel: cl[i],
			Raw: ethtypes.Log{Address: verifCore, TxHash: txs[i], BlockHash: blocks[i], BlockNumber: H[i]}}
		zzverif.MustNotBlock(func() { node.logSink <- ev; zzverif.Settle() })
	}
	w.pendingMu.Lock()
	np0 := len(w.pending)
	w.pendingMu.Unlock()
	zzverif.Assert(np0 == 2, "both-logs-pending")
	var forwarded [2]int
	pending := [2]bool{true, true}
	heads := zzverif.Len("heads", 1, 2)
	for k := 0; k < heads; k++ {
		number := zzverif.U64("head")
		zzverif.Assume(number < 1<<41)
		safe := zzverif.Len("safe", 0, 1) == 1
		var kind [2]int
		var status [2]uint64
		var sameBlock [2]bool
		var lookups [2]int
		kind[0], kind[1] = zzverif.Len("receipt0", 0, 3, 4), zzverif.Len("receipt1", 0, 3, 4)
		status[0], status[1] = zzverif.U64("status0"), zzverif.U64("status1")
		sameBlock[0], sameBlock[1] = zzverif.Len("sameBlock0", 1, 0) == 1, zzverif.Len("sameBlock1", 1, 0) == 1
		node.receipt = func(tx ethcommon.Hash) (*ethtypes.Receipt, error) {
			i := 0
			if tx == verifTx2 {
				i = 1
			}
			lookups[i]++
			switch kind[i] {
			case 0:
				return nil, nil
			case 3:
				return &ethtypes.Receipt{Status: 1, BlockHash: blocks[i]}, errors.New("connection reset")
			}
			bh := blocks[i]
			if !sameBlock[i] {
				bh = ethcommon.Hash{0: 0xB0, 31: 0x09}
			}
			return &ethtypes.Receipt{Status: status[i], BlockHash: bh, BlockNumber: new(big.Int).SetUint64(H[i])}, nil
		}
		zzverif.MustNotBlock(func() { node.headSink <- &NewBlock{Number: new(big.Int).SetUint64(number), Hash: ethcommon.Hash{1}, Safe: safe}; zzverif.Settle() })
		var got [2]int
		for len(w.msgChan) > 0 {
			m := <-w.msgChan
			i := 0
			if m.Sequence == 56 {
				i = 1
			}
			zzverif.Assert(m.Sequence == uint64(55+i) && m.TxHash == txs[i] && m.ConsistencyLevel == cl[i], "forwarded-message-is-its-log")
			got[i]++
		}
		for i := 0; i < 2; i++ {
			conf := uint64(0)
			if wait && !safe {
				conf = uint64(cl[i])
			}
			ready := H[i]+conf <= number
			good := kind[i] == 4 && status[i] == 1 && sameBlock[i]
			forwarded[i] += got[i]
			zzverif.Assert(forwarded[i] <= 1, "forwarded-at-most-once")
			if got[i] > 0 {
				zzverif.Reach("forwarded")
				zzverif.Assert(pending[i], "forwarded-only-while-pending")
				zzverif.Assert(ready, "forwarded-only-when-the-seen-head-is-deep-enough")
				zzverif.Assert(good && lookups[i] > 0, "forwarded-only-when-the-receipt-still-confirms-it")
				pending[i] = false
			} else if pending[i] {
				if ready && good {
					zzverif.Assert(false, "ready-and-confirmed-message-is-forwarded-whatever-happens-to-the-other")
				}
				if ready && (kind[i] == 0 || (kind[i] == 4 && (status[i] != 1 || !sameBlock[i]))) {
					pending[i] = false
					zzverif.Reach("dropped")
				}
				if H[i]+conf+60 <= number && !(ready && good) {
					pending[i] = false
				}
			}
		}
		w.pendingMu.Lock()
		np := len(w.pending)
		w.pendingMu.Unlock()
		want := 0
		if pending[0] {
			want++
		}
		if pending[1] {
			want++
		}
		if want == 2 {
			zzverif.Reach("both-still-pending")
		}
		zzverif.Assert(np == want, "exactly-the-unsettled-messages-stay-pending")
	}
	zzverif.Reach("end")
}
