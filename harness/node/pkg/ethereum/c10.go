package ethereum

import (
	"context"
	"errors"
	"math/big"
	"sync/atomic"
	"time"

	"go.uber.org/zap"

	"github.com/alephium/wormhole-fork/node/pkg/common"
	ethabi "github.com/alephium/wormhole-fork/node/pkg/ethereum/abi"
	gossipv1 "github.com/alephium/wormhole-fork/node/pkg/proto/gossip/v1"
	"github.com/alephium/wormhole-fork/node/pkg/vaa"
	"github.com/alephium/wormhole-fork/node/pkg/zzverif"
	ethereum "github.com/ethereum/go-ethereum"
	ethcommon "github.com/ethereum/go-ethereum/common"
	ethtypes "github.com/ethereum/go-ethereum/core/types"
	"github.com/ethereum/go-ethereum/event"
	"github.com/ethereum/go-ethereum/rpc"
)

var verifCore = ethcommon.Address{0: 0xC0, 19: 0x01}
var verifOther = ethcommon.Address{0: 0xEE, 19: 0x02}

type verifSub struct{ errC chan error }

func (s *verifSub) Err() <-chan error { return s.errC }
func (s *verifSub) Unsubscribe()      {}

// scripted EVM node: the scenario decides what every call returns
type verifNode struct {
	logSink   chan<- *ethabi.AbiLogMessagePublished
	headSink  chan<- *NewBlock
	receipt   func(tx ethcommon.Hash) (*ethtypes.Receipt, error)
	head      uint64
	headErr   bool
	calls     []string
	parseOf   map[int]*ethabi.AbiLogMessagePublished
}

func (n *verifNode) NetworkName() string              { return "verif" }
func (n *verifNode) ContractAddress() ethcommon.Address { return verifCore }
func (n *verifNode) GetCurrentGuardianSetIndex(ctx context.Context) (uint32, error) {
	return 0, nil
}
func (n *verifNode) GetGuardianSet(ctx context.Context, index uint32) (ethabi.StructsGuardianSet, error) {
	return ethabi.StructsGuardianSet{Keys: []ethcommon.Address{{1}}}, nil
}
func (n *verifNode) WatchLogMessagePublished(ctx context.Context, sink chan<- *ethabi.AbiLogMessagePublished) (event.Subscription, error) {
	n.logSink = sink
	return &verifSub{make(chan error)}, nil
}
func (n *verifNode) TransactionReceipt(ctx context.Context, tx ethcommon.Hash) (*ethtypes.Receipt, error) {
	n.calls = append(n.calls, "receipt")
	return n.receipt(tx)
}
func (n *verifNode) TimeOfBlockByHash(ctx context.Context, hash ethcommon.Hash) (uint64, error) {
	return 1700000000, nil
}
func (n *verifNode) ParseLogMessagePublished(log ethtypes.Log) (*ethabi.AbiLogMessagePublished, error) {
	ev := n.parseOf[int(log.Index)]
	if ev == nil {
		return nil, errors.New("cannot parse")
	}
	return ev, nil
}
func (n *verifNode) SubscribeForBlocks(ctx context.Context, sink chan<- *NewBlock) (ethereum.Subscription, error) {
	n.headSink = sink
	return &verifSub{make(chan error)}, nil
}
func (n *verifNode) RawCallContext(ctx context.Context, result interface{}, method string, args ...interface{}) error {
	return errors.New("not scripted")
}

// starts the REAL Watcher.Run against the scripted node: the dial and the block poller are replaced through hook
// prologues (NewEthereumConnector, NewBlockPollConnector, BlockPollConnector.getBlock/SubscribeForBlocks), everything
// after the prologue of Run - the three service loops - is the real code.
func verifStartWatcher(ctx context.Context, node *verifNode, wait bool) *Watcher {
	poll := uint(1)
	w := NewEthWatcher("ws://unused", verifCore, "verif", "verif-ready", vaa.ChainIDEthereum, make(chan *common.MessagePublication, 8), make(chan *common.GuardianSet, 8),
		make(chan *gossipv1.ObservationRequest, 1), true, &poll, wait)
	zzverif.Hooks["func.NewEthereumConnector"] = func(ctx context.Context, networkName, rawUrl string, address ethcommon.Address, logger *zap.Logger) (*EthereumConnector, error) {
		return nil, nil
	}
	zzverif.Hooks["func.NewBlockPollConnector"] = func(ctx context.Context, baseConnector Connector, delay time.Duration, useFinalized bool) (*BlockPollConnector, error) {
		return &BlockPollConnector{Connector: node, enabled: &atomic.Bool{}}, nil
	}
	zzverif.Hooks["BlockPollConnector.SubscribeForBlocks"] = func(ctx context.Context, sink chan<- *NewBlock) (ethereum.Subscription, error) {
		return node.SubscribeForBlocks(ctx, sink)
	}
	zzverif.Hooks["BlockPollConnector.getBlock"] = func(ctx context.Context, logger *zap.Logger, number *big.Int, safe bool) (*NewBlock, error) {
		node.calls = append(node.calls, "head")
		if node.headErr {
			return nil, errors.New("node API error")
		}
		return &NewBlock{Number: new(big.Int).SetUint64(node.head)}, nil
	}
	go func() { _ = w.Run(ctx) }()
	zzverif.Settle()
	return w
}

var verifTx = ethcommon.Hash{0: 0xAA, 31: 0x01}
var verifBlockHash = ethcommon.Hash{0: 0xB0, 31: 0x01}
var verifOtherBlock = ethcommon.Hash{0: 0xB0, 31: 0x02}

// C10, primary path: one log from the subscription (block height H, consistency level cl), then up to two head events
// (any number, safe or not). At each head the node answers the receipt lookup with: nothing / ErrNoResult / "not found" /
// another error / a receipt with any status, in the same or another block. The message is forwarded only when the head
// is deep enough and the receipt still confirms it - and then it IS forwarded, at once, however far the head jumped;
// it is forwarded at most once; orphaned / re-mined / failed transactions are dropped; transient errors keep it pending.
func VerifC10_Main() { zzverif.Supervised(verifC10Main) }

func verifC10Main(ctx context.Context) {
	wait := zzverif.Len("waitForConfirmations", 1, 0) == 1
	node := &verifNode{}
	cctx, cancel := context.WithCancel(ctx)
	defer cancel()
	w := verifStartWatcher(cctx, node, wait)
	zzverif.Assert(node.logSink != nil && node.headSink != nil, "watcher-subscribed")
	if node.logSink == nil || node.headSink == nil {
		return
	}
	H, cl := zzverif.U64("H"), zzverif.U8("cl")
	zzverif.Assume(H < 1<<40)
	ev := &ethabi.AbiLogMessagePublished{Sender: ethcommon.Address{19: 7}, TargetChainId: 2, Sequence: 55, Nonce: 1, Payload: []byte{1, 2}, ConsistencyLevel: cl,
		Raw: ethtypes.Log{Address: verifCore, TxHash: verifTx, BlockHash: verifBlockHash, BlockNumber: H}}
	zzverif.MustNotBlock(func() { node.logSink <- ev; zzverif.Settle() })
	forwarded := 0
	pending := true
	heads := zzverif.Len("heads", 1, 2)
	for k := 0; k < heads; k++ {
		number := zzverif.U64("head")
		zzverif.Assume(number < 1<<41)
		safe := zzverif.Len("safe", 0, 1) == 1
		kind := zzverif.Len("receipt", 0, 1, 2, 3, 4)
		status := zzverif.U64("status")
		sameBlock := zzverif.Len("sameBlock", 1, 0) == 1
		lookups := 0
		node.receipt = func(tx ethcommon.Hash) (*ethtypes.Receipt, error) {
			lookups++
			switch kind {
			case 0:
				return nil, nil
			case 1:
				return nil, rpc.ErrNoResult
			case 2:
				return nil, errors.New("not found")
			case 3:
				return &ethtypes.Receipt{Status: 1, BlockHash: verifBlockHash}, errors.New("connection reset")
			}
			bh := verifBlockHash
			if !sameBlock {
				bh = verifOtherBlock
			}
			return &ethtypes.Receipt{Status: status, BlockHash: bh, BlockNumber: new(big.Int).SetUint64(H)}, nil
		}
		zzverif.MustNotBlock(func() { node.headSink <- &NewBlock{Number: new(big.Int).SetUint64(number), Hash: ethcommon.Hash{1}, Safe: safe}; zzverif.Settle() })
		conf := uint64(0)
		if wait && !safe {
			conf = uint64(cl)
		}
		ready := H+conf <= number
		good := kind == 4 && status == 1 && sameBlock
		got := 0
		for len(w.msgChan) > 0 {
			m := <-w.msgChan
			got++
			zzverif.Assert(m.Sequence == 55 && m.TxHash == verifTx && m.ConsistencyLevel == cl, "forwarded-message-is-the-log")
		}
		forwarded += got
		zzverif.Assert(forwarded <= 1, "forwarded-at-most-once")
		if got > 0 {
			zzverif.Reach("forwarded")
			zzverif.Assert(pending, "forwarded-only-while-pending")
			zzverif.Assert(ready, "forwarded-only-when-the-seen-head-is-deep-enough")
			zzverif.Assert(good && lookups > 0, "forwarded-only-when-the-receipt-still-confirms-it")
			pending = false
		} else if pending {
			if ready && good {
				zzverif.Assert(false, "ready-and-confirmed-message-is-forwarded-however-far-the-head-advanced")
			}
			if ready && (kind <= 2 || (kind == 4 && (status != 1 || !sameBlock))) {
				pending = false // orphaned, failed or re-mined: dropped for good
				zzverif.Reach("dropped")
			}
			if H+conf+60 <= number && !(ready && good) {
				pending = false // abandonment window over (allowed once the node failed to confirm it)
			}
		}
		w.pendingMu.Lock()
		np := len(w.pending)
		w.pendingMu.Unlock()
		if pending {
			zzverif.Reach("still-pending")
			zzverif.Assert(np == 1, "transient-failure-or-shallow-head-keeps-the-message")
		} else {
			zzverif.Assert(np == 0, "settled-message-removed-from-pending")
		}
	}
	zzverif.Reach("end")
}

// C10, re-observation: the transaction's receipt has up to two logs, each from the core contract or another one, with
// the message topic or another one; the head is read BEFORE the receipt. Forwarded messages come only from core-contract
// logs with the message topic in a successful transaction that is deep enough under the head read first.
func VerifC10_Reobserve() { zzverif.Supervised(verifC10Reobserve) }

func verifC10Reobserve(ctx context.Context) {
	wait := zzverif.Len("waitForConfirmations", 1, 0) == 1
	node := &verifNode{parseOf: map[int]*ethabi.AbiLogMessagePublished{}}
	cctx, cancel := context.WithCancel(ctx)
	defer cancel()
	w := verifStartWatcher(cctx, node, wait)
	node.head = zzverif.U64("head")
	node.headErr = zzverif.Len("headErr", 0, 1) == 1
	blockNumber := zzverif.U64("blockNumber")
	zzverif.Assume(node.head < 1<<41 && blockNumber < 1<<40)
	status := zzverif.U64("status")
	nlogs := zzverif.Len("logs", 0, 1, 2)
	type lg struct {
		core, topic bool
		cl          uint8
	}
	logs := make([]lg, nlogs)
	rc := &ethtypes.Receipt{Status: status, BlockHash: verifBlockHash, BlockNumber: new(big.Int).SetUint64(blockNumber)}
	for i := range logs {
		logs[i] = lg{core: zzverif.Len("core", 1, 0) == 1, topic: zzverif.Len("topic", 1, 0) == 1, cl: zzverif.U8("cl")}
		addr, topic := verifOther, ethcommon.Hash{9}
		if logs[i].core {
			addr = verifCore
		}
		if logs[i].topic {
			topic = LogMessagePublishedTopic
		}
		rc.Logs = append(rc.Logs, &ethtypes.Log{Address: addr, Topics: []ethcommon.Hash{topic}, Index: uint(i), TxHash: verifTx, BlockHash: verifBlockHash, BlockNumber: blockNumber})
		node.parseOf[i] = &ethabi.AbiLogMessagePublished{Sender: ethcommon.Address{19: 7}, TargetChainId: 2, Sequence: uint64(70 + i), Nonce: 1, Payload: []byte{1}, ConsistencyLevel: logs[i].cl,
			Raw: ethtypes.Log{TxHash: verifTx, BlockHash: verifBlockHash, BlockNumber: blockNumber}}
	}
	receiptErr := zzverif.Len("receiptErr", 0, 1) == 1
	node.receipt = func(tx ethcommon.Hash) (*ethtypes.Receipt, error) {
		if receiptErr {
			return nil, errors.New("node API error")
		}
		return rc, nil
	}
	node.calls = nil
	zzverif.MustNotBlock(func() {
		w.obsvReqC <- &gossipv1.ObservationRequest{ChainId: uint32(vaa.ChainIDEthereum), TxHash: verifTx[:]}
		zzverif.Settle()
	})
	n := 0
	for len(w.msgChan) > 0 {
		m := <-w.msgChan
		n++
		zzverif.Reach("forwarded")
		i := int(m.Sequence) - 70
		zzverif.Assert(i >= 0 && i < nlogs, "forwarded-message-is-a-log-of-the-transaction")
		if i < 0 || i >= nlogs {
			continue
		}
		zzverif.Assert(logs[i].core, "forwarded-only-logs-of-the-core-contract")
		zzverif.Assert(logs[i].topic, "forwarded-only-logs-with-the-message-topic")
		zzverif.Assert(status == 1 && !receiptErr && !node.headErr, "forwarded-only-from-a-successful-transaction")
		conf := uint64(0)
		if wait {
			conf = uint64(logs[i].cl)
		}
		zzverif.Assert(blockNumber+conf <= node.head && node.head != 0, "forwarded-only-when-deep-enough-under-the-head")
		zzverif.Assert(len(node.calls) >= 2 && node.calls[0] == "head" && node.calls[1] == "receipt", "head-read-before-the-receipt")
	}
	if n == 0 {
		zzverif.Reach("nothing-forwarded")
	}
}
