package processor

import "github.com/alephium/wormhole-fork/node/pkg/zzverif"

func VerifC07_Quorum() {
	n := int(zzverif.U8("n"))
	q := CalculateQuorum(n)
	zzverif.Assert(q == 2*n/3+1, "formula")
	if n >= 1 {
		zzverif.Assert(3*q > 2*n && q <= n, "bft")
	}
	zzverif.Reach("end")
}
