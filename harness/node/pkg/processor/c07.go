package processor

import "github.com/alephium/wormhole-fork/node/pkg/zzverif"

// C07: for every guardian-set size of the one-byte wire range the node's threshold is floor(2n/3)+1, equals what the
// Solidity and the Ralph contracts compute (expressions extracted from the contract sources into verifSolQuorum /
// verifRalQuorum on every run), exceeds 2n/3, never exceeds n, and two quorums overlap in more than n/3 guardians.
func VerifC07_Quorum() {
	n := int(zzverif.U8("n"))
	q := CalculateQuorum(n)
	zzverif.Assert(q == 2*n/3+1, "formula")
	zzverif.Assert(uint64(q) == verifSolQuorum(uint64(n)), "equals-solidity")
	zzverif.Assert(uint64(q) == verifRalQuorum(uint64(n)), "equals-ralph")
	if n >= 1 {
		zzverif.Assert(3*q > 2*n, "exceeds-two-thirds")
		zzverif.Assert(q <= n, "at-most-n")
		zzverif.Assert(3*(2*q-n) > n, "two-quorums-share-more-than-a-third")
	}
	// the contracts APPLY the threshold as the node does: a VAA with s signatures passes the contract's count test exactly
	// when the node would consider it complete (s >= q)
	s := uint64(zzverif.U8("s"))
	zzverif.Assert(verifSolRejects(s, uint64(n)) == (s < uint64(q)), "solidity-applies-the-node-threshold")
	zzverif.Assert(verifRalAccepts(s, uint64(n)) == (s >= uint64(q)), "ralph-applies-the-node-threshold")
	zzverif.Reach("end")
}
