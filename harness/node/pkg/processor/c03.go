package processor

import (
	"bytes"
	"context"
	"encoding/hex"

	"github.com/alephium/wormhole-fork/node/pkg/common"
	gossipv1 "github.com/alephium/wormhole-fork/node/pkg/proto/gossip/v1"
	"github.com/alephium/wormhole-fork/node/pkg/zzverif"
	ethcommon "github.com/ethereum/go-ethereum/common"
	"github.com/ethereum/go-ethereum/crypto"
)

// C03, observation part: a gossiped observation changes the aggregation state only if its signature recovers to the
// address it claims and that address belongs to the APPLICABLE guardian set - the set in force when the node observed
// the message itself, or the node's current set for a message it has not (yet) observed. Pre-states: set A = {0,1},
// optionally an earlier honest observation (entry created from gossip), optionally the node's own observation,
// optionally a change to set B = {1,2}; then one test observation: honest by key 0..3, or fully arbitrary bytes.
func VerifC03_Observation() { zzverif.Supervised(verifC03Observation) }

func verifC03Observation(ctx context.Context) {
	p := verifNewProcessor(1)
	A, B := verifSet(10, 0, 1), verifSet(11, 1, 2)
	p.gs = A
	k := verifMessage("m")
	zzverif.Assume(!verifIsGov(k) && len(k.Payload) > 0)
	dg := verifVAAOf(k, 0).SigningMsg()
	digest := dg[:]
	hash := hex.EncodeToString(digest)

	if e := zzverif.Len("early", 0, 1, 9); e != 9 {
		p.handleObservation(ctx, verifObsBy(e, digest))
	}
	var applicable *common.GuardianSet
	local := zzverif.Len("local", 0, 1, 2) // 0: never observed locally, 1: observed under A, 2: observed after the change to B
	if local == 1 {
		p.handleMessage(ctx, k)
		applicable = A
	}
	if zzverif.Len("change", 0, 1) == 1 || local == 2 {
		p.gs = B
	}
	if local == 2 {
		p.handleMessage(ctx, k)
		applicable = B
	}
	if applicable == nil {
		applicable = p.gs
	}
	verifDrainSend(p)
	for len(p.obsvC) > 0 {
		<-p.obsvC // the own loopback is not part of this scenario
	}

	var m *gossipv1.SignedObservation
	if j := zzverif.Len("tester", 0, 1, 2, 3, 9); j != 9 {
		m = verifObsBy(j, digest)
		if zzverif.Len("wrongAddr", 0, 1) == 1 { // a valid signature, but under another key's address
			a := zzverif.AddrOf((j + 1) % 4)
			m.Addr = a[:]
		}
	} else {
		var addrs [][]byte // replay hints only (see BlobLike): the bytes stay unconstrained
		for j := 0; j < 4; j++ {
			a := zzverif.AddrOf(j)
			addrs = append(addrs, a[:])
		}
		m = &gossipv1.SignedObservation{Addr: zzverif.BlobLike("adv.addr", 20, addrs...), Hash: zzverif.BlobLike("adv.hash", 32, digest), Signature: zzverif.Blob("adv.sig", 65)}
	}
	mhash := hex.EncodeToString(m.Hash)
	// snapshot
	nBefore := len(p.state.vaaSignatures)
	var sigBefore map[ethcommon.Address][]byte
	if st := p.state.vaaSignatures[mhash]; st != nil {
		sigBefore = map[ethcommon.Address][]byte{}
		for a, s := range st.signatures {
			sigBefore[a] = s
		}
	}
	zzverif.NoPanic(func() { p.handleObservation(ctx, m) })
	changed := len(p.state.vaaSignatures) != nBefore
	if st := p.state.vaaSignatures[mhash]; st != nil && !changed {
		if len(st.signatures) != len(sigBefore) {
			changed = true
		}
		for a, s := range st.signatures {
			if old, ok := sigBefore[a]; !ok || !bytes.Equal(old, s) {
				changed = true
			}
		}
	}
	if !changed {
		zzverif.Reach("unchanged")
		return
	}
	zzverif.Reach("changed")
	pk, err := crypto.Ecrecover(m.Hash, m.Signature)
	zzverif.Assert(err == nil, "state-change-requires-recoverable-signature")
	if err != nil {
		return
	}
	signer := ethcommon.BytesToAddress(crypto.Keccak256(pk[1:])[12:])
	zzverif.Assert(signer == ethcommon.BytesToAddress(m.Addr), "state-change-requires-signature-by-claimed-address")
	set := applicable
	if mhash != hash {
		set = p.gs // another digest: a message the node has not observed -> current set
	}
	_, in := set.KeyIndex(signer)
	zzverif.Assert(in, "state-change-requires-member-of-applicable-set")
	zzverif.Assert(len(verifDrainSend(p)) == 0 || local != 0, "nothing-broadcast-for-unobserved-message")
}
