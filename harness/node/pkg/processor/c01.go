package processor

import (
	"context"

	"github.com/alephium/wormhole-fork/node/pkg/common"
	"github.com/alephium/wormhole-fork/node/pkg/db"
	gossipv1 "github.com/alephium/wormhole-fork/node/pkg/proto/gossip/v1"
	"github.com/alephium/wormhole-fork/node/pkg/vaa"
	"github.com/alephium/wormhole-fork/node/pkg/zzverif"
	ethcommon "github.com/ethereum/go-ethereum/common"
)

// Bounded history: local observation, some honest members' observations (any subset, any of them),
// then ONE fully adversarial gossiped observation; afterwards everything in the store must verify
// against the snapshot set with at least quorum signatures.
func VerifC01_AdversarialObservation() {
	ctx := context.Background()
	n := zzverif.Len("n", 1, 2, 3)
	p := verifNewProcessor(0)
	keys := make([]ethcommon.Address, n)
	for i := range keys {
		keys[i] = ethcommon.Address(zzverif.AddrOf(i))
	}
	p.gs = &common.GuardianSet{Keys: keys, Index: zzverif.U32("gsidx")}
	k := verifMessage("m")
	zzverif.Assume(!(k.EmitterAddress == p.governanceEmitterAddress && k.EmitterChain == p.governanceChainId))
	zzverif.Assume(len(k.Payload) > 0)
	p.handleMessage(ctx, k)
	own := verifRecvObs(p)
	digest := own.Hash
	delivered := 0
	if zzverif.Bool("deliver-own") {
		p.handleObservation(ctx, own)
		delivered++
	}
	for j := 1; j < n; j++ {
		if zzverif.Bool("deliver-member") {
			sig := zzverif.SignBy(j, digest)
			a := zzverif.AddrOf(j)
			p.handleObservation(ctx, &gossipv1.SignedObservation{Addr: a[:], Hash: digest, Signature: sig})
			delivered++
		}
	}
	// adversary: every field arbitrary
	adv := &gossipv1.SignedObservation{Addr: zzverif.Bytes("adv.addr", 20), Hash: zzverif.Bytes("adv.hash", 32), Signature: zzverif.Bytes("adv.sig", 65)}
	zzverif.NoPanic(func() { p.handleObservation(ctx, adv) })

	quorum := CalculateQuorum(n)
	id := vaa.VAAID{EmitterChain: k.EmitterChain, EmitterAddress: k.EmitterAddress, TargetChain: k.TargetChain, Sequence: k.Sequence}
	b, err := p.db.GetSignedVAABytes(id)
	if err == nil {
		zzverif.Reach("stored")
		v, uerr := vaa.Unmarshal(b)
		zzverif.Assert(uerr == nil, "stored-decodes")
		if uerr != nil {
			return
		}
		zzverif.Assert(len(v.Signatures) >= quorum, "stored-quorum")
		zzverif.Assert(v.VerifySignatures(keys), "stored-verifies")
		zzverif.Assert(v.GuardianSetIndex == p.gs.Index, "stored-names-set")
		zzverif.Assert(delivered+1 >= quorum, "published-only-with-quorum-delivered")
	} else {
		zzverif.Assert(err == db.ErrVAANotFound, "lookup-error")
		zzverif.Reach("not-stored")
		zzverif.Assert(delivered < quorum, "prompt")
	}
}
