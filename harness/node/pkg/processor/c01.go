package processor

import (
	"bytes"
	"context"

	"github.com/alephium/wormhole-fork/node/pkg/common"
	"github.com/alephium/wormhole-fork/node/pkg/db"
	gossipv1 "github.com/alephium/wormhole-fork/node/pkg/proto/gossip/v1"
	"github.com/alephium/wormhole-fork/node/pkg/vaa"
	"github.com/alephium/wormhole-fork/node/pkg/zzverif"
)

// every complete VAA the node has broadcast so far and the one it stores for k, checked against `set`
func verifC01CheckOutputs(p *Processor, k *common.MessagePublication, set *common.GuardianSet, what string) (published bool) {
	for _, msg := range verifDrainSend(p) {
		if b := verifEnvelopeVAA(msg); b != nil {
			published = true
			zzverif.Reach("broadcast")
			v := verifCheckComplete(b, set, what+":broadcast")
			if v != nil && set != nil {
				zzverif.Assert(v.GuardianSetIndex == set.Index, what+":broadcast-names-set-in-force-at-observation")
			}
		}
	}
	b, err := p.db.GetSignedVAABytes(verifIDOf(k))
	if err == nil {
		zzverif.Reach("stored")
		v := verifCheckComplete(b, set, what+":stored")
		if v != nil && set != nil {
			zzverif.Assert(v.GuardianSetIndex == set.Index, what+":stored-names-set-in-force-at-observation")
			own := verifVAAOf(k, set.Index)
			zzverif.Assert(v.SigningMsg() == own.SigningMsg(), what+":stored-body-is-own-observation")
		}
		return true
	}
	zzverif.Assert(err == db.ErrVAANotFound, what+":lookup-error")
	return published
}

// C01, observation path, one guardian set: the node (own key at any position, or not a member) observes a message;
// before and after that, observations arrive: honest ones from an arbitrary subset of members (any order relative to
// the own loopback), and ONE fully adversarial one (every byte of address, digest and signature symbolic) at an arbitrary
// place. Whatever is stored or broadcast as complete must verify against the set with quorum.
func VerifC01_Static() { zzverif.Supervised(verifC01Static) }

func verifC01Static(ctx context.Context) {
	n := zzverif.Len("n", 1, 2, 3, 4)
	own := zzverif.Len("own", 0, 1, 2, 3, 4) // own == n: the node's key is not in the set
	zzverif.Assume(own <= n)
	p := verifNewProcessor(own)
	S := verifSet(zzverif.U32("gsidx"), verifRange(0, n)...)
	p.gs = S
	k := verifMessage("m")
	zzverif.Assume(!verifIsGov(k) && len(k.Payload) > 0)
	dg := verifVAAOf(k, 0).SigningMsg()
	digest := dg[:]
	advAt := zzverif.Len("advAt", 0, 1, 2) // adversarial observation: before the local observation / in the middle / last
	// every byte of the adversarial observation is symbolic; the candidates only tell the replay which NATIVE bytes to use
	// when the solver makes the address equal to a key's address or the hash equal to the message digest
	var addrs [][]byte
	for j := 0; j <= n; j++ {
		a := zzverif.AddrOf(j)
		addrs = append(addrs, a[:])
	}
	adv := &gossipv1.SignedObservation{Addr: zzverif.BlobLike("adv.addr", 20, addrs...), Hash: zzverif.BlobLike("adv.hash", 32, digest), Signature: zzverif.Blob("adv.sig", 65)}

	early := zzverif.Len("early", 0, 1, 2, 3, 4, 9) // one member's observation arrives before the node has seen the message (9: none)
	if early != 9 {
		zzverif.Assume(early < n && early != own)
		zzverif.NoPanic(func() { p.handleObservation(ctx, verifObsBy(early, digest)) })
	}
	if advAt == 0 {
		zzverif.NoPanic(func() { p.handleObservation(ctx, adv) })
	}
	zzverif.Assert(!verifC01CheckOutputs(p, k, S, "before-local"), "nothing-published-before-local-observation")

	zzverif.NoPanic(func() { p.handleMessage(ctx, k) })
	loop := verifRecvObs(p)
	zzverif.Assert(loop != nil, "own-observation-looped-back")
	lbFirst := zzverif.Len("loopbackFirst", 0, 1) == 1
	if lbFirst && loop != nil {
		zzverif.NoPanic(func() { p.handleObservation(ctx, loop) })
	}
	for j := 0; j < n; j++ {
		if j == own || j == early {
			continue
		}
		if zzverif.Len("deliver", 0, 1) == 1 {
			zzverif.NoPanic(func() { p.handleObservation(ctx, verifObsBy(j, digest)) })
		}
		if advAt == 1 && j == 0 {
			zzverif.NoPanic(func() { p.handleObservation(ctx, adv) })
		}
	}
	if !lbFirst && loop != nil {
		zzverif.NoPanic(func() { p.handleObservation(ctx, loop) })
	}
	if advAt == 2 || (advAt == 1 && (n == 1 || own == 0 || early == 0)) {
		zzverif.NoPanic(func() { p.handleObservation(ctx, adv) })
	}
	if verifC01CheckOutputs(p, k, S, "end") {
		zzverif.Reach("published")
	} else {
		zzverif.Reach("not-published")
	}
}

// C01, guardian-set change: set A in force, possibly one early peer observation, the set may change to B before or
// after the node's own observation, then members of A and B observe. The set the published VAA must verify against -
// and name - is the one in force when the node observed the message.
func VerifC01_SetChange() { zzverif.Supervised(verifC01SetChange) }

func verifC01SetChange(ctx context.Context) {
	nA := zzverif.Len("nA", 1, 2, 3)
	nB := zzverif.Len("nB", 1, 2, 3)
	shift := zzverif.Len("shift", 0, 1, 2) // B = keys shift .. shift+nB-1 (overlaps A partially, fully or not at all)
	own := zzverif.Len("own", 0, 1, 2)
	zzverif.Assume(own < nA || (own >= shift && own < shift+nB))
	p := verifNewProcessor(own)
	idxA := zzverif.U32("idxA")
	A := verifSet(idxA, verifRange(0, nA)...)
	B := verifSet(idxA+1, verifRange(shift, nB)...)
	p.gs = A
	k := verifMessage("m")
	zzverif.Assume(!verifIsGov(k) && len(k.Payload) > 0)
	dg := verifVAAOf(k, 0).SigningMsg()
	digest := dg[:]
	when := zzverif.Len("change", 1, 2) // 1: before the own observation, 2: after it

	inA := func(j int) bool { return j < nA }
	inB := func(j int) bool { return j >= shift && j < shift+nB }
	early := zzverif.Len("early", 0, 1, 2, 3, 4, 9)
	if early != 9 {
		zzverif.Assume(early != own && early < 5)
		zzverif.NoPanic(func() { p.handleObservation(ctx, verifObsBy(early, digest)) })
	}
	if when == 1 {
		p.gs = B
	}
	S := p.gs // in force at the node's own observation
	inS := inA
	if when == 1 {
		inS = inB
	}
	// ghost (C02): distinct members of S whose observation was delivered and acceptable under the set applicable then
	counted := map[int]bool{}
	if early != 9 && inA(early) && inS(early) {
		counted[early] = true
	}
	zzverif.NoPanic(func() { p.handleMessage(ctx, k) })
	loop := verifRecvObs(p)
	lbFirst := zzverif.Len("loopbackFirst", 0, 1) == 1
	if lbFirst && loop != nil {
		zzverif.NoPanic(func() { p.handleObservation(ctx, loop) })
		if inS(own) {
			counted[own] = true
		}
	}
	if when == 2 {
		p.gs = B
	}
	for j := 0; j < 5; j++ {
		if j == own || j == early || !(j < nA || (j >= shift && j < shift+nB)) {
			continue
		}
		if zzverif.Len("deliver", 0, 1) == 1 {
			zzverif.NoPanic(func() { p.handleObservation(ctx, verifObsBy(j, digest)) })
			if inS(j) {
				counted[j] = true
			}
		}
	}
	if !lbFirst && loop != nil {
		zzverif.NoPanic(func() { p.handleObservation(ctx, loop) })
		if inS(own) {
			counted[own] = true
		}
	}
	if verifC01CheckOutputs(p, k, S, "end") {
		zzverif.Reach("published")
		zzverif.Assert(len(counted) >= 2*len(S.Keys)/3+1, "c02:published-only-with-quorum-of-distinct-members-of-the-relevant-set-delivered")
	} else {
		zzverif.Reach("not-published")
	}
}

// C01, inbound / backfill path: a peer's SignedVAAWithQuorum with k signatures (each slot: any member's honest signature,
// a member's signature over another digest, 65 arbitrary bytes, or bytes on which recovery fails; index byte symbolic) is
// stored only if it verifies against the node's CURRENT set with quorum, and never replaces a VAA already stored under
// the same identifier.
func VerifC01_Inbound() { zzverif.Supervised(verifC01Inbound) }

func verifC01Inbound(ctx context.Context) {
	n := zzverif.Len("n", 0, 1, 2, 3, 4, 6)
	p := verifNewProcessor(0)
	cur := verifSet(zzverif.U32("gsidx"), verifRange(0, n)...)
	if zzverif.Len("haveSet", 0, 1) == 1 {
		p.gs = cur
	}
	k := verifMessage("m")
	v := verifVAAOf(k, zzverif.U32("named"))
	dg := v.SigningMsg()
	other := dg
	other[0] ^= 1
	nsig := zzverif.Len("nsig", 0, 1, 2, 3, 4, 5)
	for i := 0; i < nsig; i++ {
		s := &vaa.Signature{Index: zzverif.U8("idx")}
		sel := zzverif.Len("sel", 0, 1, 2, 3, 4, 5, 6, 7, 8)
		switch {
		case sel < 6:
			zzverif.Assume(sel < n)
			copy(s.Signature[:], zzverif.SignBy(sel, dg[:]))
		case sel == 6:
			zzverif.Assume(n > 0)
			copy(s.Signature[:], zzverif.SignBy(0, other[:]))
		case sel == 7:
			copy(s.Signature[:], zzverif.Blob("rawsig", 65))
		default:
			copy(s.Signature[:], zzverif.MalformedSig("badsig"))
		}
		v.Signatures = append(v.Signatures, s)
	}
	raw, merr := v.Marshal()
	zzverif.Assume(merr == nil)
	// optionally a VAA is already stored under the same identifier (one signature, other payload byte)
	var before []byte
	if zzverif.Len("prestored", 0, 1) == 1 {
		w := verifVAAOf(k, zzverif.U32("named0"))
		w.Payload = append([]byte{0x77}, k.Payload...)
		ws := &vaa.Signature{Index: 0}
		copy(ws.Signature[:], zzverif.Blob("presig", 65))
		w.Signatures = []*vaa.Signature{ws}
		zzverif.Assume(p.db.StoreSignedVAA(w) == nil)
		before, _ = w.Marshal()
	}
	zzverif.NoPanic(func() { p.handleInboundSignedVAAWithQuorum(ctx, &gossipv1.SignedVAAWithQuorum{Vaa: raw}) })

	zzverif.Assert(len(verifDrainSend(p)) == 0, "inbound-path-broadcasts-nothing")
	got, err := p.db.GetSignedVAABytes(verifIDOf(k))
	if before != nil {
		zzverif.Reach("prestored")
		zzverif.Assert(err == nil && bytes.Equal(got, before), "stored-vaa-never-replaced-by-peer-copy")
		return
	}
	if err != nil {
		zzverif.Assert(err == db.ErrVAANotFound, "lookup-error")
		zzverif.Reach("rejected")
		// completeness of the inbound path is not part of the statement; only record that rejection is reachable
		return
	}
	zzverif.Reach("accepted")
	zzverif.Assert(p.gs != nil, "accepted-only-with-a-known-set")
	zzverif.Assert(len(k.Payload) > 0, "accepted-has-payload")
	zzverif.Assert(bytes.Equal(got, raw), "stored-bytes-are-the-peer-bytes")
	verifCheckComplete(got, p.gs, "inbound")
}
