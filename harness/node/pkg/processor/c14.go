package processor

import (
	"bytes"
	"context"
	"time"

	gossipv1 "github.com/alephium/wormhole-fork/node/pkg/proto/gossip/v1"
	"github.com/alephium/wormhole-fork/node/pkg/vaa"
	"github.com/alephium/wormhole-fork/node/pkg/zzverif"
	ethcommon "github.com/ethereum/go-ethereum/common"
)

// C14: ONE cleanup tick on ONE arbitrary aggregation entry (an inductive step: any history of ticks is a sequence of
// these). The entry is any state the processor can build: observed message (own VAA, own broadcast message, tx hash,
// set snapshot), injected VAA (same but no tx hash), or signatures only (never observed). Ages, retry bookkeeping and
// flags are symbolic. The clock is read by the real code (through the redirected time.Now/time.Since) several times
// during the tick; the harness brackets the tick with its own readings tb <= (every reading of the code) <= ta and
// states every obligation against the bound that makes it weakest.
func VerifC14_Tick() { zzverif.Supervised(verifC14Tick) }

const (
	verifSettle = 30 * time.Second
	verifRetry  = 5 * time.Minute
	verifExpire = time.Hour
)

func verifC14Tick(ctx context.Context) {
	p := verifNewProcessor(0)
	n := zzverif.Len("n", 1, 3, 0) // 0: no guardian set learned yet (the only possible entry: an operator injection)
	gsIndex := zzverif.U32("gsidx")
	if n > 0 {
		p.gs = verifSet(gsIndex, verifRange(0, n)...)
	}
	k := verifMessage("m")
	zzverif.Assume(!verifIsGov(k) && len(k.Payload) > 0)
	v := verifVAAOf(k, gsIndex)
	dg := v.SigningMsg()
	hash := "digest-key"

	kind := zzverif.Len("kind", 0, 1, 2) // 0 observed on chain, 1 signatures only (never observed), 2 injected by the operator
	// before a guardian set is known neither chain messages are signed nor gossiped signatures parked (both handlers
	// return early): the only entry that can exist then is an operator injection
	zzverif.Assume(n > 0 || kind == 2)
	fo := zzverif.Now()
	s := &vaaState{firstObserved: fo, signatures: map[ethcommon.Address][]byte{}, source: "x",
		submitted: zzverif.Bool("submitted"), settled: zzverif.Bool("settled"), retryCount: uint(zzverif.U32("retryCount"))}
	nsig := zzverif.Len("nsig", 0, 1, 3)
	zzverif.Assume(nsig <= n)
	for j := 0; j < nsig; j++ {
		s.signatures[ethcommon.Address(zzverif.AddrOf(j))] = zzverif.SignBy(j, dg[:])
	}
	ourMsg := []byte("own-observation-envelope")
	if kind != 1 {
		s.ourVAA, s.ourMsg, s.gs = v, ourMsg, p.gs
		if kind == 0 {
			s.txHash = k.TxHash.Bytes()
		}
	} else {
		zzverif.Assume(!s.submitted) // submitted is only ever set together with ourVAA
	}
	neverRetried := zzverif.Bool("neverRetried")
	if !neverRetried {
		s.lastRetry = zzverif.Now()
	} else {
		zzverif.Assume(s.retryCount == 0)
	}
	p.state.vaaSignatures[hash] = s
	stored := zzverif.Len("stored", 0, 1) == 1
	if stored {
		w := verifVAAOf(k, gsIndex)
		ws := &vaa.Signature{Index: 0}
		copy(ws.Signature[:], zzverif.Blob("storedsig", 65))
		w.Signatures = []*vaa.Signature{ws}
		zzverif.Assume(p.db.StoreSignedVAA(w) == nil)
	}
	queueFull := zzverif.Len("reqQueueFull", 0, 1) == 1
	if queueFull {
		for len(verifReqC) < cap(verifReqC) {
			verifReqC <- &gossipv1.ObservationRequest{ChainId: 0xdead}
		}
	}
	// a store fault during the tick: the lookup of the stored VAA fails with an error that is not "not found"
	// (the store was closed); a failed lookup is not evidence that a quorum VAA is stored
	storeFault := !stored && zzverif.Len("storeFault", 0, 1) == 1
	if storeFault {
		_ = p.db.Close()
	}
	before := *s
	tb := zzverif.Now()
	zzverif.NoPanic(func() { p.handleCleanup(ctx) })
	ta := zzverif.Now()

	// ages bracketing what the code can have computed
	dLo, dHi := tb.Sub(fo), ta.Sub(fo)
	var rLo, rHi time.Duration
	if neverRetried {
		rLo, rHi = 1<<62, 1<<62 // time.Since(zero time) saturates
	} else {
		rLo, rHi = tb.Sub(before.lastRetry), ta.Sub(before.lastRetry)
	}
	after := p.state.vaaSignatures[hash]
	deleted := after == nil
	sent := verifDrainSend(p)
	retried := len(sent) > 0
	haveMsg := before.ourMsg != nil
	budgetSpent := (haveMsg && before.retryCount >= 14400) || (!haveMsg && before.retryCount >= 10)
	late := !before.submitted && before.ourVAA != nil && stored

	// ---- nothing is discarded without cause ----
	if deleted {
		zzverif.Reach("deleted")
		ok := (before.submitted && dHi >= verifExpire) ||
			(late && dHi > verifSettle) ||
			(!before.submitted && budgetSpent) ||
			(!before.submitted && !haveMsg && dHi >= verifRetry && rHi >= verifRetry)
		zzverif.Assert(ok, "entry-discarded-only-when-expired-stored-exhausted-or-never-observed")
		zzverif.Assert(!retried, "no-retry-for-a-discarded-entry")
	} else {
		zzverif.Reach("kept")
	}
	// ---- a signed, still incomplete message is not dropped before its budget is spent (unless stored) ----
	if haveMsg && !before.submitted && !budgetSpent && !stored {
		zzverif.Assert(!deleted, "pending-own-message-kept-until-budget-spent")
	}
	// ---- retries: exactly one re-broadcast + one re-observation request, only when due, bookkeeping updated ----
	if retried {
		zzverif.Reach("retried")
		zzverif.Assert(len(sent) == 1 && bytes.Equal(sent[0], ourMsg), "retry-rebroadcasts-own-observation-once")
		zzverif.Assert(haveMsg && !before.submitted, "retry-only-for-own-unsubmitted-message")
		zzverif.Assert(dHi >= verifRetry && rHi >= verifRetry, "retry-not-before-five-minutes")
		if !deleted {
			zzverif.Assert(after.retryCount == before.retryCount+1, "retry-counted")
			zzverif.Assert(!after.lastRetry.Before(tb) && !after.lastRetry.After(ta), "retry-time-recorded")
		}
		if !queueFull {
			zzverif.Assert(len(verifReqC) == 1, "one-reobservation-request")
			if len(verifReqC) == 1 {
				r := <-verifReqC
				zzverif.Assert(r.ChainId == uint32(k.EmitterChain) && bytes.Equal(r.TxHash, before.txHash), "reobservation-request-names-the-transaction")
			}
		} else {
			zzverif.Assert(len(verifReqC) == cap(verifReqC), "full-request-queue-untouched")
		}
	} else if !queueFull {
		zzverif.Assert(len(verifReqC) == 0, "no-request-without-retry")
	}
	// ---- per-tick progress (with 30 s ticks these bound every lifetime) ----
	lateNow := late && dLo > verifSettle // removed by the store check before anything else
	switch {
	case lateNow:
		zzverif.Assert(deleted, "late-entry-with-stored-vaa-removed")
	case !before.settled && dLo > verifSettle:
		zzverif.Assert(!deleted && after.settled, "entry-settles-after-thirty-seconds")
	case before.settled && before.submitted && dLo >= verifExpire:
		zzverif.Assert(deleted, "completed-entry-expires-after-an-hour")
	case before.settled && !before.submitted && budgetSpent:
		zzverif.Assert(deleted, "exhausted-entry-removed")
	case before.settled && !before.submitted && !haveMsg && dLo >= verifRetry && rLo >= verifRetry:
		zzverif.Assert(deleted, "never-observed-signatures-dropped-after-five-minutes")
	case before.settled && !before.submitted && haveMsg && dLo >= verifRetry && rLo >= verifRetry && !(late && dHi > verifSettle):
		zzverif.Assert(retried, "due-retry-is-issued")
	}
	if !before.submitted && haveMsg && rHi < verifRetry {
		zzverif.Assert(!retried, "no-retry-within-five-minutes-of-the-last")
	}
}
