package processor

import (
	"bytes"
	"context"

	"github.com/alephium/wormhole-fork/node/pkg/common"
	"github.com/alephium/wormhole-fork/node/pkg/db"
	gossipv1 "github.com/alephium/wormhole-fork/node/pkg/proto/gossip/v1"
	"github.com/alephium/wormhole-fork/node/pkg/vaa"
	"github.com/alephium/wormhole-fork/node/pkg/zzverif"
)

type verifC02 struct {
	ctx       context.Context
	p         *Processor
	S         *common.GuardianSet
	k         *common.MessagePublication
	digest    []byte
	n, own    int
	seen      bool
	delivered map[int]bool // distinct members of S whose valid observation of digest(M) has been delivered
	envelopes int
	pubBytes  []byte
}

func (h *verifC02) quorum() int { return 2*h.n/3 + 1 }

// drains the broadcast queue, counts complete-VAA envelopes for M, returns whether M is published now
func (h *verifC02) observe(after string, deliveredAcceptableObs bool) {
	for _, msg := range verifDrainSend(h.p) {
		if b := verifEnvelopeVAA(msg); b != nil {
			h.envelopes++
			h.pubBytes = b
		}
	}
	stored, err := h.p.db.GetSignedVAABytes(verifIDOf(h.k))
	published := err == nil
	if !published {
		zzverif.Assert(err == db.ErrVAANotFound, after+":lookup-error")
	}
	zzverif.Assert(h.envelopes <= 1, after+":published-at-most-once")
	zzverif.Assert(published == (h.envelopes == 1), after+":stored-iff-broadcast")
	nd := len(h.delivered)
	if published {
		zzverif.Reach("published")
		zzverif.Assert(h.seen, after+":published-only-after-own-observation")
		zzverif.Assert(nd >= h.quorum(), after+":published-only-with-quorum-of-distinct-members-delivered")
		zzverif.Assert(bytes.Equal(stored, h.pubBytes), after+":stored-equals-broadcast")
		v, uerr := vaa.Unmarshal(stored)
		zzverif.Assert(uerr == nil, after+":published-decodes")
		if uerr == nil {
			own := verifVAAOf(h.k, h.S.Index)
			zzverif.Assert(v.SigningMsg() == own.SigningMsg() && v.GuardianSetIndex == h.S.Index && v.Sequence == h.k.Sequence && v.Nonce == h.k.Nonce &&
				v.EmitterChain == h.k.EmitterChain && v.TargetChain == h.k.TargetChain && v.EmitterAddress == h.k.EmitterAddress &&
				v.ConsistencyLevel == h.k.ConsistencyLevel && bytes.Equal(v.Payload, h.k.Payload) && v.Timestamp.Unix() == h.k.Timestamp.Unix(), after+":published-body-is-own-observation")
			zzverif.Assert(len(v.Signatures) >= h.quorum() && v.VerifySignatures(h.S.Keys), after+":published-verifies")
		}
	} else if deliveredAcceptableObs && h.seen && nd >= h.quorum() {
		zzverif.Assert(false, after+":not-published-although-seen-and-quorum-delivered")
	}
}

func (h *verifC02) obs(j int, what string) {
	o := verifObsBy(j, h.digest)
	zzverif.NoPanic(func() { h.p.handleObservation(h.ctx, o) })
	if j < h.n {
		h.delivered[j] = true
	}
	h.observe(what, j < h.n)
}

// invalid traffic: outsider over the right digest, member over a decoy digest, member's signature under another
// member's address, arbitrary bytes. None of it may count.
func (h *verifC02) noise(kind int, what string) {
	decoy := append([]byte{}, h.digest...)
	decoy[31] ^= 1
	other := (h.own + 1) % (h.n + 1)
	a := zzverif.AddrOf(other)
	var m *gossipv1.SignedObservation
	switch kind {
	case 0:
		m = verifObsBy(h.n+1, h.digest) // key outside the set
	case 1:
		m = verifObsBy(other, decoy) // member, but another digest
	case 2:
		m = &gossipv1.SignedObservation{Addr: a[:], Hash: h.digest, Signature: zzverif.SignBy(h.n+1, h.digest)} // outsider's signature under a member's address
	default:
		// arbitrary bytes that are NOT a valid member observation of this digest (replaying one is a delivery, not noise)
		var addrs [][]byte // replay hints only (see BlobLike): the bytes stay unconstrained
		for j := 0; j <= h.n; j++ {
			aj := zzverif.AddrOf(j)
			addrs = append(addrs, aj[:])
		}
		m = &gossipv1.SignedObservation{Addr: zzverif.BlobLike("adv.addr", 20, addrs...), Hash: zzverif.Blob("adv.hash", 32), Signature: zzverif.Blob("adv.sig", 65)}
		zzverif.Assume(!bytes.Equal(m.Hash, h.digest))
	}
	zzverif.NoPanic(func() { h.p.handleObservation(h.ctx, m) })
	h.observe(what, false)
	_, derr := h.p.db.GetSignedVAABytes(vaa.VAAID{EmitterChain: h.k.EmitterChain, EmitterAddress: h.k.EmitterAddress, TargetChain: h.k.TargetChain, Sequence: h.k.Sequence + 1})
	zzverif.Assert(derr == db.ErrVAANotFound, what+":nothing-published-for-other-ids")
}

// C02: the node publishes M exactly when it has observed M itself and valid observations from a quorum of distinct
// members (its own included) have been delivered - for every assignment of each other member to
// {never, before the local observation, after it, both (duplicate)}, the own loopback first / last / never, with and
// without invalid traffic in between, and a repeated local observation at the end.
func VerifC02_ExactlyWhen() { zzverif.Supervised(verifC02ExactlyWhen) }

func verifC02ExactlyWhen(ctx context.Context) {
	n := zzverif.Len("n", 1, 2, 3, 4)
	own := zzverif.Len("own", 0, 1, 2, 3, 4)
	zzverif.Assume(own <= n) // own == n: not a member (its loopback then does not count)
	h := &verifC02{ctx: ctx, p: verifNewProcessor(own), n: n, own: own, delivered: map[int]bool{}}
	h.S = verifSet(zzverif.U32("gsidx"), verifRange(0, n)...)
	h.p.gs = h.S
	h.k = verifMessage("m")
	zzverif.Assume(!verifIsGov(h.k) && len(h.k.Payload) > 0)
	dg := verifVAAOf(h.k, 0).SigningMsg()
	h.digest = dg[:]
	noise := zzverif.Len("noise", 0, 1, 2, 3, 4, 5, 6, 7, 8) // 0 none; 1..4 one invalid observation before the local observation; 5..8 after it

	when := make([]int, n) // 0 never, 1 early, 2 late, 3 both
	for j := 0; j < n; j++ {
		if j != own {
			when[j] = zzverif.Len("when", 0, 1, 2, 3)
		}
	}
	for j := 0; j < n; j++ {
		if j != own && when[j]&1 != 0 {
			h.obs(j, "early")
		}
	}
	if noise >= 1 && noise <= 4 {
		h.noise(noise-1, "noise-before-local")
	}
	zzverif.NoPanic(func() { h.p.handleMessage(ctx, h.k) })
	h.seen = true
	h.observe("after-local", false)
	loop := verifRecvObs(h.p)
	zzverif.Assert(loop != nil, "own-observation-looped-back")
	if loop == nil {
		return
	}
	lb := zzverif.Len("loopback", 0, 1, 2) // first, last, never
	deliverLoop := func(what string) {
		zzverif.NoPanic(func() { h.p.handleObservation(ctx, loop) })
		if own < n {
			h.delivered[own] = true
		}
		h.observe(what, own < n)
	}
	if lb == 0 {
		deliverLoop("loopback-first")
	}
	for j := 0; j < n; j++ {
		if j != own && when[j]&2 != 0 {
			h.obs(j, "late")
		}
	}
	if noise >= 5 {
		h.noise(noise-5, "noise-after-local")
	}
	if lb == 1 {
		deliverLoop("loopback-last")
	}
	// re-observing the same message is idempotent
	zzverif.NoPanic(func() { h.p.handleMessage(ctx, h.k) })
	h.observe("after-second-local", false)
	if l2 := verifRecvObs(h.p); l2 != nil && lb != 2 {
		zzverif.NoPanic(func() { h.p.handleObservation(ctx, l2) })
		h.observe("after-second-loopback", own < n)
	}
	if h.envelopes == 0 {
		zzverif.Reach("never-published")
	}
}

// C02: a chain observation that names the governance emitter is never signed: no observation is broadcast, no
// aggregation entry is created, the signer is not invoked.
func VerifC02_GovernanceEmitter() { zzverif.Supervised(verifC02Gov) }

var verifSignCalls int

type verifCountingSigner struct{ verifSigner }

func (s *verifCountingSigner) Sign(d []byte) ([]byte, error) {
	verifSignCalls++
	return s.verifSigner.Sign(d)
}

func verifC02Gov(ctx context.Context) {
	p := verifNewProcessor(0)
	p.guardianSigner = &verifCountingSigner{verifSigner{0}}
	p.gs = verifSet(3, 0, 1, 2)
	k := verifMessage("m")
	verifSignCalls = 0
	zzverif.NoPanic(func() { p.handleMessage(ctx, k) })
	if verifIsGov(k) {
		zzverif.Reach("governance")
		zzverif.Assert(verifSignCalls == 0, "governance-emitter-not-signed")
		zzverif.Assert(len(p.sendC) == 0 && verifRecvObs(p) == nil, "governance-emitter-nothing-broadcast")
		zzverif.Assert(len(p.state.vaaSignatures) == 0, "governance-emitter-no-state")
	} else {
		zzverif.Reach("ordinary")
		zzverif.Assert(verifSignCalls == 1, "ordinary-message-signed-once")
		zzverif.Assert(len(p.sendC) == 1, "ordinary-message-observation-broadcast")
		o := verifEnvelopeObs(<-p.sendC)
		zzverif.Assert(o != nil, "broadcast-is-an-observation")
		if o != nil {
			d := verifVAAOf(k, 3).SigningMsg()
			zzverif.Assert(bytes.Equal(o.Hash, d[:]), "observation-over-own-digest")
		}
	}
}

// C02: the node's own observation is part of the quorum "its own included": it reaches the aggregation even if the
// inbound observation queue is full at the moment the message is observed (the processor must neither stall on its own
// queue nor drop its own observation), and re-observing the message later leaves the entry's retry bookkeeping alone
// (idempotence: the retry / expiry schedule of C14 counts from the first observation).
func VerifC02_Loopback() { zzverif.Supervised(verifC02Loopback) }

func verifC02Loopback(ctx context.Context) {
	n := zzverif.Len("n", 1, 2)
	p := verifNewProcessor(0)
	p.gs = verifSet(zzverif.U32("gsidx"), verifRange(0, n)...)
	k := verifMessage("m")
	zzverif.Assume(!verifIsGov(k) && len(k.Payload) > 0)
	full := zzverif.Len("obsvQueueFull", 0, 1) == 1
	junk := &gossipv1.SignedObservation{}
	if full {
		for len(p.obsvC) < cap(p.obsvC) {
			p.obsvC <- junk
		}
	}
	zzverif.MustNotBlock(func() { zzverif.NoPanic(func() { p.handleMessage(ctx, k) }) })
	// the processor's main loop keeps consuming its queue
	var loop *gossipv1.SignedObservation
	for i := 0; i < cap(p.obsvC)+2 && loop == nil; i++ {
		o := verifRecvObs(p)
		if o == nil {
			zzverif.Settle()
			if o = verifRecvObs(p); o == nil {
				break
			}
		}
		if o != junk {
			loop = o
		}
	}
	zzverif.Assert(loop != nil, "own-observation-looped-back-even-when-the-queue-was-full")
	if loop == nil {
		return
	}
	zzverif.NoPanic(func() { p.handleObservation(ctx, loop) })
	_, err := p.db.GetSignedVAABytes(verifIDOf(k))
	zzverif.Assert((err == nil) == (n == 1), "published-exactly-when-own-observation-completes-the-quorum")
	zzverif.Assert(len(p.state.vaaSignatures) == 1, "one-aggregation-entry")
	var before vaaState
	var key string
	for h, s := range p.state.vaaSignatures {
		key, before = h, *s
	}
	zzverif.NoPanic(func() { p.handleMessage(ctx, k) })
	after := p.state.vaaSignatures[key]
	zzverif.Assert(after != nil && len(p.state.vaaSignatures) == 1, "re-observation-keeps-the-entry")
	if after != nil {
		zzverif.Assert(after.firstObserved.Equal(before.firstObserved) && after.lastRetry.Equal(before.lastRetry) && after.retryCount == before.retryCount &&
			after.submitted == before.submitted && after.settled == before.settled, "re-observation-leaves-the-retry-schedule-alone")
	}
	zzverif.Reach("end")
}
