package processor

import (
	"context"

	gossipv1 "github.com/alephium/wormhole-fork/node/pkg/proto/gossip/v1"
	"github.com/alephium/wormhole-fork/node/pkg/vaa"
	"github.com/alephium/wormhole-fork/node/pkg/zzverif"
)

// C13 (and the dispatch that C01/C02 take for granted): the REAL Processor.Run loop as a goroutine, fed through its
// input channels. K events, each followed by a hand-over so that Run takes it (the own-observation loopback is consumed
// by Run itself, as in production). A panic in the Run goroutine is a violation; besides that the harness checks that
// every input reached the handler it belongs to:
//
//	0 guardian-set update (0..2 keys)   1 chain message M   3 adversarial observation   4 honest observation by member 1
//	5 inbound bytes   6 inbound well-formed VAA   7 injected VAA   8 cleanup tick (the 30 s ticker, fired by the harness)
func VerifC13_RunLoop() { zzverif.Supervised(verifC13RunLoop) }

func verifC13RunLoop(ctx context.Context) {
	K := zzverif.Len("K", 1, 2, 3, 4)
	p := verifNewProcessor(0)
	k := verifMessage("m")
	cctx, cancel := context.WithCancel(ctx)
	defer cancel()
	returned := false
	go func() { _ = p.Run(cctx); returned = true }()
	zzverif.Settle()
	zzverif.Assert(!returned, "run-loop-keeps-running")
	n := -1 // no set yet
	for step := 0; step < K; step++ {
		switch zzverif.Len("ev", 0, 1, 3, 4, 5, 6, 7, 8) {
		case 0:
			n = zzverif.Len("setsize", 0, 1, 2)
			gs := verifSet(zzverif.U32("gsidx"), verifRange(0, n)...)
			zzverif.MustNotBlock(func() { p.setC <- gs; zzverif.Settle() })
			zzverif.Assert(p.gs == gs && p.gst.Get() == gs, "set-update-installed")
		case 1:
			zzverif.MustNotBlock(func() { p.lockC <- k; zzverif.Settle() })
			if n >= 1 && !verifIsGov(k) {
				// the node signs what it observed: its observation goes out; with a one-member set (itself) the loopback,
				// taken by Run, completes the VAA
				sawObs := false
				for _, m := range verifDrainSend(p) {
					if verifEnvelopeObs(m) != nil {
						sawObs = true
					}
				}
				id := verifIDOf(k)
				_, err := p.db.GetSignedVAABytes(id)
				zzverif.Assert(sawObs || err == nil, "observed-message-is-signed-and-broadcast")
				if n == 1 && len(k.Payload) > 0 {
					zzverif.Assert(err == nil, "single-guardian-message-completes-through-the-loop")
					zzverif.Reach("completed")
				}
			}
		case 3:
			var o *gossipv1.SignedObservation
			switch zzverif.Len("adv.form", 0, 1, 2, 3) {
			case 0:
				o = &gossipv1.SignedObservation{Addr: zzverif.Blob("adv.addr", 20), Hash: zzverif.Blob("adv.hash", 32), Signature: zzverif.Blob("adv.sig", 65)}
			case 1:
				o = &gossipv1.SignedObservation{}
			case 2:
				o = &gossipv1.SignedObservation{Addr: zzverif.Blob("adv.addr", 20), Hash: zzverif.Blob("adv.hash", 32), Signature: zzverif.Blob("adv.sig", 64)}
			default:
				o = &gossipv1.SignedObservation{Addr: zzverif.Blob("adv.addr", 21), Hash: zzverif.Blob("adv.hash", 31), Signature: zzverif.Blob("adv.sig", 65)}
			}
			zzverif.MustNotBlock(func() { p.obsvC <- o; zzverif.Settle() })
		case 4:
			d := verifVAAOf(k, 0).SigningMsg()
			o := verifObsBy(1, d[:])
			zzverif.MustNotBlock(func() { p.obsvC <- o; zzverif.Settle() })
		case 5:
			m := &gossipv1.SignedVAAWithQuorum{Vaa: verifBytesOrNil("in.raw", -1, 60)}
			zzverif.Assume(len(m.Vaa) < 6 || m.Vaa[5] <= 1)
			zzverif.MustNotBlock(func() { p.signedInC <- m; zzverif.Settle() })
		case 6:
			v := verifVAAOf(k, zzverif.U32("in.gsi"))
			d := v.SigningMsg()
			for i := 0; i < n; i++ {
				s := &vaa.Signature{Index: uint8(i)}
				copy(s.Signature[:], zzverif.SignBy(i, d[:]))
				v.Signatures = append(v.Signatures, s)
			}
			raw, _ := v.Marshal()
			zzverif.MustNotBlock(func() { p.signedInC <- &gossipv1.SignedVAAWithQuorum{Vaa: raw}; zzverif.Settle() })
		case 7:
			v := verifVAAOf(k, zzverif.U32("inj.gsi"))
			v.Payload = zzverif.Bytes("inj.payload", zzverif.Len("inj.plen", 0, 1))
			zzverif.MustNotBlock(func() { p.injectC <- v; zzverif.Settle() })
		case 8:
			zzverif.MustNotBlock(func() { zzverif.Tick(0) })
		}
		zzverif.Assert(len(p.setC)+len(p.lockC)+len(p.obsvC)+len(p.signedInC)+len(p.injectC) == 0, "run-loop-consumed-every-input")
		zzverif.Assert(!returned, "run-loop-keeps-running")
		verifDrainSend(p)
		for len(verifReqC) > 0 {
			<-verifReqC
		}
	}
	cancel()
	zzverif.Settle()
	zzverif.Assert(returned, "run-loop-ends-on-cancellation")
	zzverif.Reach("end")
}
