package processor

import (
	"context"

	"github.com/alephium/wormhole-fork/node/pkg/zzverif"
)

// Single-guardian history: observe, loop back, observe the same message again.
func VerifC13_ObserveTwice() {
	zzverif.Supervised(verifC13ObserveTwice)
}

func verifC13ObserveTwice(ctx context.Context) {
	p := verifNewProcessor(0)
	p.gs = verifSet(0, 0)
	k := verifMessage("m")
	zzverif.NoPanic(func() {
		p.handleMessage(ctx, k)
		o := verifRecvObs(p)
		if o == nil {
			zzverif.Reach("dropped-governance")
			return
		}
		p.handleObservation(ctx, o)
		zzverif.Reach("looped-back")
		p.handleMessage(ctx, k)
		zzverif.Reach("observed-again")
	})
}
