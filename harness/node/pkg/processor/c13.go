package processor

import (
	"context"
	"crypto/ecdsa"
	"time"

	"github.com/alephium/wormhole-fork/node/pkg/common"
	"github.com/alephium/wormhole-fork/node/pkg/db"
	gossipv1 "github.com/alephium/wormhole-fork/node/pkg/proto/gossip/v1"
	"github.com/alephium/wormhole-fork/node/pkg/reporter"
	"github.com/alephium/wormhole-fork/node/pkg/vaa"
	"github.com/alephium/wormhole-fork/node/pkg/zzverif"
	ethcommon "github.com/ethereum/go-ethereum/common"
	"go.uber.org/zap"
)

type verifSigner struct{ id int }

func (s *verifSigner) Sign(d []byte) ([]byte, error) { return zzverif.SignBy(s.id, d), nil }
func (s *verifSigner) PublicKey() ecdsa.PublicKey    { return zzverif.PubKey(s.id) }

func verifNewProcessor(own int) *Processor {
	d, err := db.Open(zzverif.TempDir())
	if err != nil {
		panic(err)
	}
	return &Processor{
		lockC: make(chan *common.MessagePublication, 8), setC: make(chan *common.GuardianSet, 8),
		sendC: make(chan []byte, 64), obsvC: make(chan *gossipv1.SignedObservation, 64),
		obsvReqSendC: make(chan *gossipv1.ObservationRequest, 4), signedInC: make(chan *gossipv1.SignedVAAWithQuorum, 8),
		injectC: make(chan *vaa.VAA, 8), guardianSigner: &verifSigner{own},
		gst: common.NewGuardianSetState(nil), db: d, attestationEvents: reporter.EventListener(zap.NewNop()),
		logger: zap.NewNop(), state: &aggregationState{vaaMap{}}, ourAddr: ethcommon.Address(zzverif.AddrOf(own)),
		governanceChainId: 1, governanceEmitterAddress: vaa.Address{31: 4},
	}
}

func verifMessage(tag string) *common.MessagePublication {
	k := &common.MessagePublication{
		Timestamp:        time.Unix(int64(zzverif.U32(tag+".ts")), 0),
		Nonce:            zzverif.U32(tag + ".nonce"),
		Sequence:         zzverif.U64(tag + ".seq"),
		ConsistencyLevel: zzverif.U8(tag + ".cl"),
		EmitterChain:     vaa.ChainID(zzverif.U16(tag + ".ec")),
		TargetChain:      vaa.ChainID(zzverif.U16(tag + ".tc")),
		Payload:          zzverif.Bytes(tag+".payload", zzverif.Len(tag+".plen", 0, 1, 2)),
	}
	copy(k.EmitterAddress[:], zzverif.Bytes(tag+".emitter", 32))
	return k
}

// Single-guardian history: observe, loop back, observe the same message again.
func VerifC13_ObserveTwice() {
	zzverif.Supervised(verifC13ObserveTwice)
}

func verifC13ObserveTwice(ctx context.Context) {
	p := verifNewProcessor(0)
	p.gs = &common.GuardianSet{Keys: []ethcommon.Address{p.ourAddr}, Index: 0}
	k := verifMessage("m")
	zzverif.NoPanic(func() {
		p.handleMessage(ctx, k)
		o := verifRecvObs(p)
		if o == nil {
			zzverif.Reach("dropped-governance")
			return
		}
		p.handleObservation(ctx, o)
		zzverif.Reach("looped-back")
		p.handleMessage(ctx, k)
		zzverif.Reach("observed-again")
	})
}

// the loopback is queued by a goroutine: immediate in the executor, awaited natively
func verifRecvObs(p *Processor) *gossipv1.SignedObservation {
	if zzverif.Symbolic() {
		if len(p.obsvC) == 0 {
			return nil
		}
		return <-p.obsvC
	}
	select {
	case o := <-p.obsvC:
		return o
	case <-time.After(500 * time.Millisecond):
		return nil
	}
}
