package processor

import (
	"context"

	gossipv1 "github.com/alephium/wormhole-fork/node/pkg/proto/gossip/v1"
	"github.com/alephium/wormhole-fork/node/pkg/vaa"
	"github.com/alephium/wormhole-fork/node/pkg/zzverif"
)

// Single-guardian history: observe, loop back, observe the same message again.
func VerifC13_ObserveTwice() {
	zzverif.Supervised(verifC13ObserveTwice)
}

func verifC13ObserveTwice(ctx context.Context) {
	p := verifNewProcessor(0)
	p.gs = verifSet(0, 0)
	k := verifMessage("m")
	zzverif.NoPanic(func() {
		p.handleMessage(ctx, k)
		o := verifRecvObs(p)
		if o == nil {
			zzverif.Reach("dropped-governance")
			return
		}
		p.handleObservation(ctx, o)
		zzverif.Reach("looped-back")
		p.handleMessage(ctx, k)
		zzverif.Reach("observed-again")
	})
}

func verifBytesOrNil(tag string, lens ...int) []byte {
	n := zzverif.Len(tag+".len", lens...)
	if n < 0 {
		return nil
	}
	return zzverif.Blob(tag, n)
}

// C13: K-event histories over the processor's input channels, starting from the UNINITIALISED processor (no guardian
// set yet). Every handler call is wrapped in NoPanic; after a dropped input the history simply continues.
//
//	0 guardian-set update (0..2 keys)      1 chain message M (payload 0..1 bytes, any fields)   2 delivery of the queued own observation
//	3 gossiped observation, adversarial: address/digest/signature each nil, short, exact or long, contents arbitrary
//	4 honest observation of M by member 1   5 inbound "signed VAA" of arbitrary bytes (nil, empty, 59, 60, 126 bytes; at most one signature announced)
//	6 inbound well-formed VAA for M signed by members 0..n-1   7 injected VAA (payload 0..1 bytes, no signatures)
//	8 cleanup tick after an arbitrary clock advance
func VerifC13_Histories() { zzverif.Supervised(verifC13Histories) }

func verifC13Histories(ctx context.Context) {
	K := zzverif.Len("K", 1, 2, 3, 4, 5)
	wide := K <= 2 // short histories range over all malformed-length combinations, longer ones over the boundary ones
	p := verifNewProcessor(0)
	k := verifMessage("m")
	n := 0
	for step := 0; step < K; step++ {
		switch zzverif.Len("ev", 0, 1, 2, 3, 4, 5, 6, 7, 8) {
		case 0:
			n = zzverif.Len("setsize", 0, 1, 2)
			gs := verifSet(zzverif.U32("gsidx"), verifRange(0, n)...)
			zzverif.NoPanic(func() { p.gs = gs; p.gst.Set(gs) })
		case 1:
			zzverif.NoPanic(func() { p.handleMessage(ctx, k) })
		case 2:
			if o := verifRecvObs(p); o != nil {
				zzverif.NoPanic(func() { p.handleObservation(ctx, o) })
			}
		case 3:
			var o *gossipv1.SignedObservation
			if wide {
				o = &gossipv1.SignedObservation{Addr: verifBytesOrNil("adv.addr", -1, 0, 19, 20, 21), Hash: verifBytesOrNil("adv.hash", -1, 0, 31, 32, 33),
					Signature: verifBytesOrNil("adv.sig", -1, 0, 64, 65, 66), TxHash: verifBytesOrNil("adv.tx", -1, 32)}
			} else {
				switch zzverif.Len("adv.form", 0, 1, 2, 3) {
				case 0: // well-formed lengths, arbitrary contents
					o = &gossipv1.SignedObservation{Addr: zzverif.Blob("adv.addr", 20), Hash: zzverif.Blob("adv.hash", 32), Signature: zzverif.Blob("adv.sig", 65)}
				case 1: // everything nil
					o = &gossipv1.SignedObservation{}
				case 2: // short signature
					o = &gossipv1.SignedObservation{Addr: zzverif.Blob("adv.addr", 20), Hash: zzverif.Blob("adv.hash", 32), Signature: zzverif.Blob("adv.sig", 64)}
				default: // short digest, long address
					o = &gossipv1.SignedObservation{Addr: zzverif.Blob("adv.addr", 21), Hash: zzverif.Blob("adv.hash", 31), Signature: zzverif.Blob("adv.sig", 65)}
				}
			}
			zzverif.NoPanic(func() { p.handleObservation(ctx, o) })
		case 4:
			d := verifVAAOf(k, 0).SigningMsg()
			o := verifObsBy(1, d[:])
			zzverif.NoPanic(func() { p.handleObservation(ctx, o) })
		case 5:
			var m *gossipv1.SignedVAAWithQuorum
			if wide {
				m = &gossipv1.SignedVAAWithQuorum{Vaa: verifBytesOrNil("in.raw", -1, 0, 59, 60, 126)}
			} else {
				m = &gossipv1.SignedVAAWithQuorum{Vaa: verifBytesOrNil("in.raw", -1, 60)}
			}
			// decoder totality on every byte string is C05's subject; here at most one signature is announced
			zzverif.Assume(len(m.Vaa) < 6 || m.Vaa[5] <= 1)
			zzverif.NoPanic(func() { p.handleInboundSignedVAAWithQuorum(ctx, m) })
		case 6:
			v := verifVAAOf(k, zzverif.U32("in.gsi"))
			d := v.SigningMsg()
			for i := 0; i < n; i++ {
				s := &vaa.Signature{Index: uint8(i)}
				copy(s.Signature[:], zzverif.SignBy(i, d[:]))
				v.Signatures = append(v.Signatures, s)
			}
			raw, _ := v.Marshal()
			zzverif.NoPanic(func() { p.handleInboundSignedVAAWithQuorum(ctx, &gossipv1.SignedVAAWithQuorum{Vaa: raw}) })
		case 7:
			v := verifVAAOf(k, zzverif.U32("inj.gsi"))
			v.Payload = zzverif.Bytes("inj.payload", zzverif.Len("inj.plen", 0, 1))
			zzverif.NoPanic(func() { p.handleInjection(ctx, v) })
		case 8:
			zzverif.NoPanic(func() { p.handleCleanup(ctx) })
		}
		verifDrainSend(p)
		for len(verifReqC) > 0 {
			<-verifReqC
		}
	}
	zzverif.Reach("end")
}
