package processor

import (
	"context"
	"crypto/ecdsa"
	"time"

	"github.com/alephium/wormhole-fork/node/pkg/common"
	"github.com/alephium/wormhole-fork/node/pkg/db"
	gossipv1 "github.com/alephium/wormhole-fork/node/pkg/proto/gossip/v1"
	"github.com/alephium/wormhole-fork/node/pkg/reporter"
	"github.com/alephium/wormhole-fork/node/pkg/vaa"
	"github.com/alephium/wormhole-fork/node/pkg/zzverif"
	ethcommon "github.com/ethereum/go-ethereum/common"
	"go.uber.org/zap"
	"google.golang.org/protobuf/proto"
)

// ---- harness kit for the processor (shared by C01 C02 C03 C13 C14) ----

type verifSigner struct{ id int }

func (s *verifSigner) Sign(d []byte) ([]byte, error) { return zzverif.SignBy(s.id, d), nil }
func (s *verifSigner) PublicKey() ecdsa.PublicKey    { return zzverif.PubKey(s.id) }

var verifGovEmitter = vaa.Address{31: 4}

const verifGovChain = vaa.ChainID(1)

// the receive side of the processor's outbound re-observation request queue (the field itself is send-only)
var verifReqC chan *gossipv1.ObservationRequest

func verifNewProcessor(own int) *Processor {
	d, err := db.Open(zzverif.TempDir())
	if err != nil {
		panic(err)
	}
	verifReqC = make(chan *gossipv1.ObservationRequest, 4)
	return &Processor{
		lockC: make(chan *common.MessagePublication, 8), setC: make(chan *common.GuardianSet, 8),
		sendC: make(chan []byte, 64), obsvC: make(chan *gossipv1.SignedObservation, 64),
		obsvReqSendC: verifReqC, signedInC: make(chan *gossipv1.SignedVAAWithQuorum, 8),
		injectC: make(chan *vaa.VAA, 8), guardianSigner: &verifSigner{own},
		gst: common.NewGuardianSetState(nil), db: d, attestationEvents: reporter.EventListener(zap.NewNop()),
		logger: zap.NewNop(), state: &aggregationState{vaaMap{}}, ourAddr: ethcommon.Address(zzverif.AddrOf(own)),
		governanceChainId: verifGovChain, governanceEmitterAddress: verifGovEmitter,
	}
}

// guardian set whose keys are the abstract keys ids[0], ids[1], ...
func verifSet(index uint32, ids ...int) *common.GuardianSet {
	keys := make([]ethcommon.Address, len(ids))
	for i, id := range ids {
		keys[i] = ethcommon.Address(zzverif.AddrOf(id))
	}
	return &common.GuardianSet{Keys: keys, Index: index}
}

func verifRange(from, n int) []int {
	r := make([]int, n)
	for i := range r {
		r[i] = from + i
	}
	return r
}

func verifMessage(tag string) *common.MessagePublication {
	k := &common.MessagePublication{
		Timestamp:        time.Unix(int64(zzverif.U32(tag+".ts")), 0),
		Nonce:            zzverif.U32(tag + ".nonce"),
		Sequence:         zzverif.U64(tag + ".seq"),
		ConsistencyLevel: zzverif.U8(tag + ".cl"),
		EmitterChain:     vaa.ChainID(zzverif.U16(tag + ".ec")),
		TargetChain:      vaa.ChainID(zzverif.U16(tag + ".tc")),
		Payload:          zzverif.Bytes(tag+".payload", zzverif.Len(tag+".plen", 0, 1, 2)),
	}
	copy(k.EmitterAddress[:], zzverif.Blob(tag+".emitter", 32))
	copy(k.TxHash[:], zzverif.Blob(tag+".txhash", 32))
	return k
}

func verifIsGov(k *common.MessagePublication) bool {
	return k.EmitterAddress == verifGovEmitter && k.EmitterChain == verifGovChain
}

// the VAA every honest guardian builds for message k (set index irrelevant for the digest)
func verifVAAOf(k *common.MessagePublication, gsIndex uint32) *vaa.VAA {
	return &vaa.VAA{Version: vaa.SupportedVAAVersion, GuardianSetIndex: gsIndex, Timestamp: k.Timestamp, Nonce: k.Nonce, EmitterChain: k.EmitterChain,
		TargetChain: k.TargetChain, EmitterAddress: k.EmitterAddress, Payload: k.Payload, Sequence: k.Sequence, ConsistencyLevel: k.ConsistencyLevel}
}

func verifIDOf(k *common.MessagePublication) vaa.VAAID {
	return vaa.VAAID{EmitterChain: k.EmitterChain, EmitterAddress: k.EmitterAddress, TargetChain: k.TargetChain, Sequence: k.Sequence}
}

// the loopback of the node's own observation is queued by a goroutine: immediate in the executor, awaited natively
func verifRecvObs(p *Processor) *gossipv1.SignedObservation {
	if zzverif.Symbolic() {
		if len(p.obsvC) == 0 {
			return nil
		}
		return <-p.obsvC
	}
	select {
	case o := <-p.obsvC:
		return o
	case <-time.After(500 * time.Millisecond):
		return nil
	}
}

// honest observation of digest by abstract key j
func verifObsBy(j int, digest []byte) *gossipv1.SignedObservation {
	a := zzverif.AddrOf(j)
	return &gossipv1.SignedObservation{Addr: a[:], Hash: digest, Signature: zzverif.SignBy(j, digest)}
}

// everything queued for broadcast so far
func verifDrainSend(p *Processor) [][]byte {
	var out [][]byte
	for len(p.sendC) > 0 {
		out = append(out, <-p.sendC)
	}
	return out
}

// if msg is a SignedVAAWithQuorum envelope return the VAA bytes it carries
func verifEnvelopeVAA(msg []byte) []byte {
	var w gossipv1.GossipMessage
	if err := proto.Unmarshal(msg, &w); err != nil {
		return nil
	}
	if q, ok := w.Message.(*gossipv1.GossipMessage_SignedVaaWithQuorum); ok && q.SignedVaaWithQuorum != nil {
		return q.SignedVaaWithQuorum.Vaa
	}
	return nil
}

func verifEnvelopeObs(msg []byte) *gossipv1.SignedObservation {
	var w gossipv1.GossipMessage
	if err := proto.Unmarshal(msg, &w); err != nil {
		return nil
	}
	if q, ok := w.Message.(*gossipv1.GossipMessage_SignedObservation); ok {
		return q.SignedObservation
	}
	return nil
}

// C01's oracle on one complete VAA (stored or broadcast): decodes, names `set`, carries >= quorum signatures which
// verify over the VAA's own digest against set.Keys in strictly ascending guardian order.
func verifCheckComplete(b []byte, set *common.GuardianSet, what string) *vaa.VAA {
	v, err := vaa.Unmarshal(b)
	zzverif.Assert(err == nil, what+":decodes")
	if err != nil {
		return nil
	}
	zzverif.Assert(set != nil && len(set.Keys) > 0, what+":applicable-set-known")
	if set == nil {
		return v
	}
	q := 2*len(set.Keys)/3 + 1
	zzverif.Assert(len(v.Signatures) >= q, what+":quorum")
	zzverif.Assert(v.VerifySignatures(set.Keys), what+":verifies-against-set")
	last := -1
	for _, s := range v.Signatures {
		zzverif.Assert(int(s.Index) > last && int(s.Index) < len(set.Keys), what+":ascending-in-range")
		last = int(s.Index)
	}
	return v
}

var _ = context.Background
