package vaa

import (
	"bytes"
	"encoding/binary"
	"time"

	"github.com/alephium/wormhole-fork/node/pkg/zzverif"
	"github.com/ethereum/go-ethereum/crypto"
)

// layouts extracted from the contract sources on every run (zz_verif_gen_c04.go, generated)
type verifField struct {
	Name     string
	Off, Len int
}
type verifLayout struct {
	Header     []verifField
	SigStart   int
	SigStride  int
	Sig        []verifField
	Body       []verifField
	PayloadOff int
	DoubleHash bool
}

func verifFullVAA(tag string, nsigMax int) *VAA {
	// timestamp: whole seconds in the 32-bit range of the format PLUS arbitrary nanoseconds (must not matter)
	v := &VAA{Version: zzverif.U8(tag + ".version"), GuardianSetIndex: zzverif.U32(tag + ".gsi"),
		Timestamp: time.Unix(int64(zzverif.U32(tag+".ts")), int64(zzverif.U32(tag+".ns")%1000000000)), Nonce: zzverif.U32(tag + ".nonce"), Sequence: zzverif.U64(tag + ".seq"),
		ConsistencyLevel: zzverif.U8(tag + ".cl"), EmitterChain: ChainID(zzverif.U16(tag + ".ec")), TargetChain: ChainID(zzverif.U16(tag + ".tc")),
		Payload: zzverif.Bytes(tag+".payload", zzverif.Len(tag+".plen", 0, 1, 2, 3, 100, 1000, 1001))}
	copy(v.EmitterAddress[:], zzverif.Bytes(tag+".emitter", 32))
	nsig := zzverif.Len(tag+".nsig", 0, 1, 2, 3, 4)
	zzverif.Assume(nsig <= nsigMax)
	for i := 0; i < nsig; i++ {
		s := &Signature{Index: zzverif.U8(tag + ".sigidx")}
		copy(s.Signature[:], zzverif.Blob(tag+".sig", 65))
		v.Signatures = append(v.Signatures, s)
	}
	return v
}

// the expected big-endian bytes of a contract-side field name
func verifFieldBytes(v *VAA, name string) []byte {
	switch name {
	case "version":
		return []byte{v.Version}
	case "guardianSetIndex":
		return binary.BigEndian.AppendUint32(nil, v.GuardianSetIndex)
	case "signersLen":
		return []byte{uint8(len(v.Signatures))}
	case "timestamp":
		return binary.BigEndian.AppendUint32(nil, uint32(v.Timestamp.Unix()))
	case "nonce":
		return binary.BigEndian.AppendUint32(nil, v.Nonce)
	case "emitterChainId":
		return binary.BigEndian.AppendUint16(nil, uint16(v.EmitterChain))
	case "targetChainId":
		return binary.BigEndian.AppendUint16(nil, uint16(v.TargetChain))
	case "emitterAddress":
		return v.EmitterAddress[:]
	case "sequence":
		return binary.BigEndian.AppendUint64(nil, v.Sequence)
	case "consistencyLevel":
		return []byte{v.ConsistencyLevel}
	}
	return nil
}

func verifSigFieldBytes(s *Signature, name string) []byte {
	switch name {
	case "guardianIndex":
		return []byte{s.Index}
	case "r":
		return s.Signature[0:32]
	case "s":
		return s.Signature[32:64]
	case "v":
		return s.Signature[64:65]
	case "signature":
		return s.Signature[:]
	}
	return nil
}

func verifCheckLayout(v *VAA, lay verifLayout, which string) {
	b, err := v.Marshal()
	zzverif.Assert(err == nil, which+":marshal-ok")
	k := len(v.Signatures)
	bodyStart := lay.SigStart + lay.SigStride*k
	zzverif.Assert(len(b) == bodyStart+lay.PayloadOff+len(v.Payload), which+":total-length")
	if len(b) != bodyStart+lay.PayloadOff+len(v.Payload) {
		return
	}
	for _, f := range lay.Header {
		want := verifFieldBytes(v, f.Name)
		zzverif.Assert(want != nil && len(want) == f.Len, which+":known-field-"+f.Name)
		zzverif.Assert(bytes.Equal(b[f.Off:f.Off+f.Len], want), which+":header-"+f.Name)
	}
	for i, s := range v.Signatures {
		base := lay.SigStart + lay.SigStride*i
		for _, f := range lay.Sig {
			want := verifSigFieldBytes(s, f.Name)
			zzverif.Assert(want != nil && len(want) == f.Len, which+":known-sigfield-"+f.Name)
			zzverif.Assert(bytes.Equal(b[base+f.Off:base+f.Off+f.Len], want), which+":sig-"+f.Name)
		}
	}
	for _, f := range lay.Body {
		want := verifFieldBytes(v, f.Name)
		zzverif.Assert(want != nil && len(want) == f.Len, which+":known-field-"+f.Name)
		zzverif.Assert(bytes.Equal(b[bodyStart+f.Off:bodyStart+f.Off+f.Len], want), which+":body-"+f.Name)
	}
	zzverif.Assert(bytes.Equal(b[bodyStart+lay.PayloadOff:], v.Payload), which+":payload")
	// the digest the contract recomputes from the wire form is the one guardians sign
	zzverif.Assert(lay.DoubleHash, which+":double-hash")
	contractDigest := crypto.Keccak256Hash(crypto.Keccak256Hash(b[bodyStart:]).Bytes())
	zzverif.Assert(v.SigningMsg() == contractDigest, which+":digest-recomputed-from-wire")
	// and it is the body serializer's output that is hashed
	zzverif.Assert(bytes.Equal(b[bodyStart:], v.serializeBody()), which+":body-is-serializeBody")
}

// C04 (1)+(2): the Go serializer lays every field out where Messages.sol parseVM and governance.ral
// parseAndVerifyVAA read it, and the contracts' digest equals SigningMsg.
func VerifC04_Layout() {
	v := verifFullVAA("v", 4)
	verifCheckLayout(v, verifSolLayout, "sol")
	verifCheckLayout(v, verifRalLayout, "ral")
	// fixed body size ahead of the payload, as the property states it
	zzverif.Assert(verifSolLayout.PayloadOff == 53 && verifRalLayout.PayloadOff == 53, "payload-offset-53")
	zzverif.Reach("end")
}

// C04 (3): the signing body does not depend on version, set index, signatures or sub-second time.
func VerifC04_Independence() {
	a := verifFullVAA("a", 2)
	b := verifFullVAA("b", 2)
	zzverif.Assume(len(a.Payload) == len(b.Payload))
	same := a.Timestamp.Unix() == b.Timestamp.Unix() && a.Nonce == b.Nonce && a.Sequence == b.Sequence && a.ConsistencyLevel == b.ConsistencyLevel &&
		a.EmitterChain == b.EmitterChain && a.TargetChain == b.TargetChain && a.EmitterAddress == b.EmitterAddress && bytes.Equal(a.Payload, b.Payload)
	sa, sb := a.serializeBody(), b.serializeBody()
	if same {
		zzverif.Reach("same-body-fields")
		zzverif.Assert(bytes.Equal(sa, sb), "independent-of-header-signatures-nanoseconds")
		zzverif.Assert(a.SigningMsg() == b.SigningMsg(), "same-digest")
	}
	// (4) injectivity for equal payload lengths
	if bytes.Equal(sa, sb) {
		zzverif.Reach("equal-bodies")
		zzverif.Assert(same, "injective")
	}
}

// C04 (4): injectivity across DIFFERENT payload lengths: the body length determines the payload length.
func VerifC04_InjectiveLengths() {
	a := verifFullVAA("a", 0)
	b := verifFullVAA("b", 0)
	sa, sb := a.serializeBody(), b.serializeBody()
	zzverif.Assert(len(sa) == 53+len(a.Payload) && len(sb) == 53+len(b.Payload), "body-length")
	if len(a.Payload) != len(b.Payload) {
		zzverif.Reach("different-lengths")
		zzverif.Assert(!bytes.Equal(sa, sb), "different-lengths-different-bodies")
	}
}

// C04 (5): the digest is a function of the CURRENT field values - asking for it, then changing a body field in place
// (or editing a by-value copy), gives the digest of the new values - and a node that decodes the wire form (as the
// contracts do) recomputes the very same digest, whatever the payload length (boundary lengths derived from the
// integer constants of Unmarshal's SSA).
func VerifC04_Recompute() {
	v := verifFullVAA("v", 1)
	zzverif.Assume(len(v.Payload) >= 1)
	_ = v.SigningMsg() // whatever this call may have remembered must not matter below
	_ = v.HexDigest()
	mode := zzverif.Len("mode", 0, 1)
	t := v
	if mode == 1 {
		c := *v // a by-value copy, edited
		t = &c
	}
	switch zzverif.Len("field", 0, 1, 2, 3, 4, 5, 6, 7) {
	case 0:
		t.Timestamp = time.Unix(int64(zzverif.U32("ts2")), 0)
	case 1:
		t.Nonce = zzverif.U32("nonce2")
	case 2:
		t.Sequence = zzverif.U64("seq2")
	case 3:
		t.ConsistencyLevel = zzverif.U8("cl2")
	case 4:
		t.EmitterChain = ChainID(zzverif.U16("ec2"))
	case 5:
		t.TargetChain = ChainID(zzverif.U16("tc2"))
	case 6:
		t.EmitterAddress[31] = zzverif.U8("e2")
	case 7:
		t.Payload = []byte{zzverif.U8("p2")}
	}
	fresh := &VAA{Version: t.Version, GuardianSetIndex: t.GuardianSetIndex, Timestamp: t.Timestamp, Nonce: t.Nonce, Sequence: t.Sequence, ConsistencyLevel: t.ConsistencyLevel,
		EmitterChain: t.EmitterChain, TargetChain: t.TargetChain, EmitterAddress: t.EmitterAddress, Payload: t.Payload}
	zzverif.Assert(bytes.Equal(t.serializeBody(), fresh.serializeBody()), "body-follows-the-current-field-values")
	zzverif.Assert(t.SigningMsg() == fresh.SigningMsg(), "digest-follows-the-current-field-values")
	zzverif.Reach("recomputed")
}

func VerifC04_WireDigest() {
	v := &VAA{Version: 1, GuardianSetIndex: zzverif.U32("gsi"), Timestamp: time.Unix(int64(zzverif.U32("ts")), int64(zzverif.U32("ns")%1000000000)), Nonce: zzverif.U32("nonce"),
		Sequence: zzverif.U64("seq"), ConsistencyLevel: zzverif.U8("cl"), EmitterChain: ChainID(zzverif.U16("ec")), TargetChain: ChainID(zzverif.U16("tc")),
		Payload: zzverif.Bytes("payload", zzverif.LenFromConsts("plen", "Unmarshal", 1, 2, 100, 1000, 1001, 65535, 65536))}
	copy(v.EmitterAddress[:], zzverif.Bytes("emitter", 32))
	b, err := v.Marshal()
	zzverif.Assert(err == nil, "encodes")
	w, err := Unmarshal(b)
	zzverif.Assert(err == nil, "wire-form-decodes")
	if err != nil {
		return
	}
	// what the contracts hash is the tail of the wire form: the node's decoder must arrive at the same digest
	zzverif.Assert(bytes.Equal(w.serializeBody(), b[6:]), "decoded-body-is-the-wire-body")
	zzverif.Assert(w.SigningMsg() == v.SigningMsg(), "digest-recomputed-from-the-wire-form")
	zzverif.Reach("end")
}
