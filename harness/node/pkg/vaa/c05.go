package vaa

import (
	"bytes"
	"time"

	"github.com/alephium/wormhole-fork/node/pkg/zzverif"
)

func VerifC05_RoundTrip() {
	v := &VAA{
		Version:          1,
		GuardianSetIndex: zzverif.U32("gsi"),
		Timestamp:        time.Unix(int64(zzverif.U32("ts")), 0),
		Nonce:            zzverif.U32("nonce"),
		Sequence:         zzverif.U64("seq"),
		ConsistencyLevel: zzverif.U8("cl"),
		EmitterChain:     ChainID(zzverif.U16("ec")),
		TargetChain:      ChainID(zzverif.U16("tc")),
		Payload:          zzverif.Bytes("payload", zzverif.Len("plen", 1, 2, 3, 999, 1000, 1001, 2000)),
	}
	copy(v.EmitterAddress[:], zzverif.Bytes("emitter", 32))
	nsig := zzverif.Len("nsig", 0, 1, 2)
	for i := 0; i < nsig; i++ {
		s := &Signature{Index: zzverif.U8("sigidx")}
		copy(s.Signature[:], zzverif.Bytes("sig", 65))
		v.Signatures = append(v.Signatures, s)
	}
	b, _ := v.Marshal()
	w, err := Unmarshal(b)
	zzverif.Assert(err == nil, "decodes")
	if err != nil {
		return
	}
	zzverif.Assert(len(w.Payload) == len(v.Payload), "payload-length")
	zzverif.Assert(bytes.Equal(w.Payload, v.Payload), "payload")
	zzverif.Assert(w.Sequence == v.Sequence && w.Nonce == v.Nonce && w.ConsistencyLevel == v.ConsistencyLevel &&
		w.EmitterChain == v.EmitterChain && w.TargetChain == v.TargetChain && w.EmitterAddress == v.EmitterAddress &&
		w.GuardianSetIndex == v.GuardianSetIndex && w.Version == v.Version, "fields")
	zzverif.Assert(w.Timestamp.Unix() == v.Timestamp.Unix(), "timestamp")
	zzverif.Assert(len(w.Signatures) == len(v.Signatures), "nsig")
	for i := range w.Signatures {
		zzverif.Assert(*w.Signatures[i] == *v.Signatures[i], "sig")
	}
	zzverif.Assert(w.SigningMsg() == v.SigningMsg(), "digest")
	zzverif.Reach("end")
}

func VerifC05_Decode() {
	data := zzverif.Bytes("data", zzverif.Len("L", 0, 1, 56, 57, 58, 59, 60, 61, 125, 126, 127))
	var v *VAA
	var err error
	zzverif.NoPanic(func() { v, err = Unmarshal(data) })
	if err != nil {
		zzverif.Assert(v == nil, "nil-on-error")
		zzverif.Reach("rejected")
		return
	}
	zzverif.Reach("accepted")
	b, _ := v.Marshal()
	zzverif.Assert(bytes.Equal(b, data), "canonical")
}
