package vaa

import (
	"bytes"
	"time"

	"github.com/alephium/wormhole-fork/node/pkg/zzverif"
)

// C05-A: encode -> decode is the identity on every VAA with a non-empty payload, <= 255 signatures and a 32-bit
// whole-second timestamp; the digest is preserved. Payload lengths: small ones plus boundary values derived from the
// integer constants in Unmarshal's own SSA (a fixed-size buffer shows up as c-1, c, c+1, 2c).
func VerifC05_RoundTrip() {
	v := &VAA{
		Version:          1,
		GuardianSetIndex: zzverif.U32("gsi"),
		Timestamp:        time.Unix(int64(zzverif.U32("ts")), 0),
		Nonce:            zzverif.U32("nonce"),
		Sequence:         zzverif.U64("seq"),
		ConsistencyLevel: zzverif.U8("cl"),
		EmitterChain:     ChainID(zzverif.U16("ec")),
		TargetChain:      ChainID(zzverif.U16("tc")),
		Payload:          zzverif.Bytes("payload", zzverif.LenFromConsts("plen", "Unmarshal", 1, 2, 3, 100, 999, 1000, 1001, 2000, 4096, 4097, 65535, 65536, 65537)),
	}
	copy(v.EmitterAddress[:], zzverif.Bytes("emitter", 32))
	nsig := zzverif.Len("nsig", 0, 1, 2, 3, 19, 255)
	for i := 0; i < nsig; i++ {
		s := &Signature{Index: zzverif.U8("sigidx")}
		copy(s.Signature[:], zzverif.Bytes("sig", 65))
		v.Signatures = append(v.Signatures, s)
	}
	b, merr := v.Marshal()
	zzverif.Assert(merr == nil, "encodes")
	zzverif.Assert(len(b) == 6+66*nsig+53+len(v.Payload), "encoded-length")
	var w *VAA
	var err error
	zzverif.NoPanic(func() { w, err = Unmarshal(b) })
	zzverif.Assert(err == nil, "decodes")
	if err != nil {
		return
	}
	zzverif.Assert(len(w.Payload) == len(v.Payload), "payload-length")
	zzverif.Assert(bytes.Equal(w.Payload, v.Payload), "payload")
	zzverif.Assert(w.Sequence == v.Sequence && w.Nonce == v.Nonce && w.ConsistencyLevel == v.ConsistencyLevel &&
		w.EmitterChain == v.EmitterChain && w.TargetChain == v.TargetChain && w.EmitterAddress == v.EmitterAddress &&
		w.GuardianSetIndex == v.GuardianSetIndex && w.Version == v.Version, "fields")
	zzverif.Assert(w.Timestamp.Equal(v.Timestamp) && w.Timestamp.Unix() == v.Timestamp.Unix(), "timestamp")
	zzverif.Assert(len(w.Signatures) == len(v.Signatures), "nsig")
	for i := range w.Signatures {
		zzverif.Assert(*w.Signatures[i] == *v.Signatures[i], "sig")
	}
	zzverif.Assert(w.SigningMsg() == v.SigningMsg(), "digest")
	// and the decoded value re-encodes to the very same bytes
	b2, _ := w.Marshal()
	zzverif.Assert(bytes.Equal(b, b2), "re-encode")
	zzverif.Reach("end")
}

// C05-B: on an arbitrary byte string the decoder never panics; if it accepts, re-encoding gives back exactly the
// input (no silent truncation, no over-read, nothing altered); if it rejects, no partially filled VAA is returned.
func VerifC05_Decode() {
	data := zzverif.Bytes("data", zzverif.LenRange("L", 0, 400))
	verifC05Decode(data)
}

// same, at the boundary lengths derived from Unmarshal's constants (large inputs)
func VerifC05_DecodeLong() {
	L := zzverif.LenFromConsts("L", "Unmarshal", 1057, 1058, 2100, 66000)
	data := zzverif.Bytes("data", L)
	// keep the signature-count fork small: long inputs with 0..2 signatures
	zzverif.Assume(len(data) < 6 || data[5] <= 2)
	verifC05Decode(data)
}

func verifC05Decode(data []byte) {
	var v *VAA
	var err error
	zzverif.NoPanic(func() { v, err = Unmarshal(data) })
	if err != nil {
		zzverif.Assert(v == nil, "nil-on-error")
		zzverif.Reach("rejected")
		return
	}
	zzverif.Reach("accepted")
	zzverif.Assert(v != nil, "non-nil-on-success")
	zzverif.Assert(len(v.Payload) > 0, "accepted-has-payload")
	b, merr := v.Marshal()
	zzverif.Assert(merr == nil, "accepted-encodes")
	zzverif.Assert(len(b) == len(data), "canonical-length")
	zzverif.Assert(bytes.Equal(b, data), "canonical")
}
