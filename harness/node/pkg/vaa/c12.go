package vaa

import (
	"bytes"

	"github.com/alephium/wormhole-fork/node/pkg/zzverif"
)

func verifID(tag string) *VAAID {
	id := &VAAID{EmitterChain: ChainID(zzverif.U16(tag + ".ec")), TargetChain: ChainID(zzverif.U16(tag + ".tc")), Sequence: zzverif.U64(tag + ".seq")}
	copy(id.EmitterAddress[:], zzverif.Bytes(tag+".addr", 32))
	zzverif.Assume(id.Sequence < 10)
	return id
}

// keys are injective, and the stream prefix selects exactly one (chain, address, target) stream
func VerifC12_Keys() {
	a, p := verifID("a"), verifID("p")
	ka, kp := a.Bytes(), p.Bytes()
	if bytes.Equal(ka, kp) {
		zzverif.Reach("equal-keys")
		zzverif.Assert(*a == *p, "key-injective")
	}
	if bytes.HasPrefix(ka, p.GovernanceEmitterPrefixBytes()) {
		zzverif.Reach("gov-prefix-hit")
		zzverif.Assert(a.EmitterChain == p.EmitterChain && a.EmitterAddress == p.EmitterAddress, "gov-prefix-isolates")
	}
	if bytes.HasPrefix(ka, p.EmitterPrefixBytes()) {
		zzverif.Reach("prefix-hit")
		zzverif.Assert(a.EmitterChain == p.EmitterChain && a.EmitterAddress == p.EmitterAddress && a.TargetChain == p.TargetChain, "prefix-isolates")
	}
}
