package vaa

import (
	"bytes"

	"github.com/alephium/wormhole-fork/node/pkg/zzverif"
)

// 16-bit chain id whose decimal digit count is a shape (so runs can be sharded by it); the value stays symbolic
func verifChainID(tag string) ChainID {
	c := zzverif.U16(tag)
	switch zzverif.Len(tag+".digits", 1, 2, 3, 4, 5) {
	case 1:
		zzverif.Assume(c < 10)
	case 2:
		zzverif.Assume(c >= 10 && c < 100)
	case 3:
		zzverif.Assume(c >= 100 && c < 1000)
	case 4:
		zzverif.Assume(c >= 1000 && c < 10000)
	default:
		zzverif.Assume(c >= 10000)
	}
	return c2(c)
}

func c2(c uint16) ChainID { return ChainID(c) }

func verifID(tag string, maxSeq uint64) *VAAID {
	id := &VAAID{EmitterChain: verifChainID(tag + ".ec"), TargetChain: verifChainID(tag + ".tc"), Sequence: zzverif.U64(tag + ".seq")}
	copy(id.EmitterAddress[:], zzverif.Blob(tag+".addr", 32))
	zzverif.Assume(id.Sequence < maxSeq)
	return id
}

// C12 key lemmas over two arbitrary identifiers (all 16-bit chain ids, all 32-byte addresses, sequences < 1000):
// the store key is injective; the governance prefix selects exactly one (chain, address); the stream prefix FOLLOWED BY
// THE SEPARATOR selects exactly one (chain, address, target) stream. (What the store's scans do with these prefixes is
// checked on the real db code by VerifC12_Store / VerifC12_GovBatch in package db.)
func VerifC12_Keys() {
	maxSeq := uint64(zzverif.Len("maxseq", 10, 1000))
	a, p := verifID("a", maxSeq), verifID("p", maxSeq)
	ka, kp := a.Bytes(), p.Bytes()
	if bytes.Equal(ka, kp) {
		zzverif.Reach("equal-keys")
		zzverif.Assert(*a == *p, "key-injective")
	}
	if bytes.HasPrefix(ka, p.GovernanceEmitterPrefixBytes()) {
		zzverif.Reach("gov-prefix-hit")
		zzverif.Assert(a.EmitterChain == p.EmitterChain && a.EmitterAddress == p.EmitterAddress, "gov-prefix-isolates")
	}
	if bytes.HasPrefix(ka, append(p.EmitterPrefixBytes(), '/')) {
		zzverif.Reach("prefix-hit")
		zzverif.Assert(a.EmitterChain == p.EmitterChain && a.EmitterAddress == p.EmitterAddress && a.TargetChain == p.TargetChain, "stream-prefix-with-separator-isolates")
	}
}
