package vaa

import (
	"time"

	"github.com/alephium/wormhole-fork/node/pkg/zzverif"
	"github.com/ethereum/go-ethereum/common"
	"github.com/ethereum/go-ethereum/crypto"
)

func verifBodyVAA() *VAA {
	v := &VAA{Version: 1, GuardianSetIndex: zzverif.U32("gsi"), Timestamp: time.Unix(int64(zzverif.U32("ts")), 0), Nonce: zzverif.U32("nonce"), Sequence: zzverif.U64("seq"),
		ConsistencyLevel: zzverif.U8("cl"), EmitterChain: ChainID(zzverif.U16("ec")), TargetChain: ChainID(zzverif.U16("tc")),
		Payload: zzverif.Bytes("payload", zzverif.Len("plen", 1, 2))}
	copy(v.EmitterAddress[:], zzverif.Bytes("emitter", 32))
	return v
}

// C06: VerifySignatures(list) <=> every signature recovers, over THIS VAA's digest, to list[idx], every idx is inside
// the list and indices strictly increase. Completeness is demanded exactly when no guardian address would be counted
// twice (lists with repeated addresses: stricter behaviour is allowed, not demanded).
//
// Per signature slot the signature bytes are a symbolic selection among: a signature by each member key over the digest,
// a member signature over ANOTHER digest (body bit flipped), and 65 arbitrary bytes (malformed / outsider / replayed).
// The guardian index byte of every slot is fully symbolic.
func VerifC06_Verify() {
	n := zzverif.Len("n", 0, 1, 2, 3, 4, 19, 255)
	k := zzverif.Len("k", 0, 1, 2, 3, 4, 5)
	dup := zzverif.Len("dup", 0, 1) // 1: list[1] repeats list[0]
	v := verifBodyVAA()
	addrs := make([]common.Address, n)
	nk := n
	if nk > 4 {
		nk = 4 // distinct honest keys that sign; the remaining list entries are further distinct addresses
	}
	for i := range addrs {
		addrs[i] = common.Address(zzverif.AddrOf(i))
	}
	if dup == 1 {
		zzverif.Assume(n >= 2)
		addrs[1] = addrs[0]
	}
	digest := v.SigningMsg()
	other := digest
	other[zzverif.U8("flipbyte")%32] ^= 1 << (zzverif.U8("flipbit") % 8)

	for j := 0; j < k; j++ {
		// who produced slot j's signature bytes (shape fork): member key m over the digest (0..nk-1),
		// member 0 over the other digest (nk), 65 arbitrary bytes (nk+1)
		sel := zzverif.Len("sel", 0, 1, 2, 3, 4, 5)
		zzverif.Assume(sel <= nk+1)
		s := &Signature{Index: zzverif.U8("idx")}
		switch {
		case sel < nk:
			copy(s.Signature[:], zzverif.SignBy(sel, digest[:]))
		case sel == nk:
			zzverif.Assume(nk > 0)
			copy(s.Signature[:], zzverif.SignBy(0, other[:]))
		default:
			copy(s.Signature[:], zzverif.Blob("rawsig", 65))
		}
		v.Signatures = append(v.Signatures, s)
	}

	// reference predicate, computed independently of the implementation's control flow
	spec := true
	distinct := true
	last := -1
	for j, s := range v.Signatures {
		idx := int(s.Index)
		if idx >= n || idx <= last {
			spec = false
			break
		}
		last = idx
		pk, err := crypto.Ecrecover(digest[:], s.Signature[:])
		if err != nil {
			spec = false
			break
		}
		if common.BytesToAddress(crypto.Keccak256(pk[1:])[12:]) != addrs[idx] {
			spec = false
			break
		}
		for i := 0; i < j; i++ {
			if addrs[int(v.Signatures[i].Index)] == addrs[idx] {
				distinct = false
			}
		}
	}
	var got bool
	zzverif.NoPanic(func() { got = v.VerifySignatures(addrs) })
	zzverif.Assert(!got || spec, "sound")
	zzverif.Assert(!(spec && distinct) || got, "complete")
	if got {
		zzverif.Reach("accepted")
	} else {
		zzverif.Reach("rejected")
	}
}

// C06: any change of a body field changes the digest that signatures are checked against, so signatures made for one
// body never verify another (collision-freeness of Keccak assumed and stated).
func VerifC06_BodyBound() {
	v := verifBodyVAA()
	w := verifBodyVAA()
	zzverif.Assume(len(v.Payload) == len(w.Payload))
	sig := zzverif.SignBy(0, func() []byte { d := v.SigningMsg(); return d[:] }())
	s := &Signature{Index: 0}
	copy(s.Signature[:], sig)
	w.Signatures = []*Signature{s}
	addrs := []common.Address{common.Address(zzverif.AddrOf(0))}
	dv, dw := v.SigningMsg(), w.SigningMsg()
	_, _ = dv, dw
	zzverif.AssumeCollisionFree()
	got := w.VerifySignatures(addrs)
	same := v.Timestamp.Unix() == w.Timestamp.Unix() && v.Nonce == w.Nonce && v.Sequence == w.Sequence && v.ConsistencyLevel == w.ConsistencyLevel &&
		v.EmitterChain == w.EmitterChain && v.TargetChain == w.TargetChain && v.EmitterAddress == w.EmitterAddress && string(v.Payload) == string(w.Payload)
	zzverif.Assert(!got || same, "signature-bound-to-body")
	if got {
		zzverif.Reach("accepted")
	} else {
		zzverif.Reach("rejected")
	}
}
