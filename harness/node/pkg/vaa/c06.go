package vaa

import (
	"sync/atomic"
	"time"

	"github.com/alephium/wormhole-fork/node/pkg/zzverif"
	"github.com/ethereum/go-ethereum/common"
	"github.com/ethereum/go-ethereum/crypto"
)

func verifBodyVAA() *VAA {
	v := &VAA{Version: 1, GuardianSetIndex: zzverif.U32("gsi"), Timestamp: time.Unix(int64(zzverif.U32("ts")), 0), Nonce: zzverif.U32("nonce"), Sequence: zzverif.U64("seq"),
		ConsistencyLevel: zzverif.U8("cl"), EmitterChain: ChainID(zzverif.U16("ec")), TargetChain: ChainID(zzverif.U16("tc")),
		Payload: zzverif.Bytes("payload", zzverif.Len("plen", 1, 2))}
	copy(v.EmitterAddress[:], zzverif.Bytes("emitter", 32))
	return v
}

// C06: VerifySignatures(list) <=> every signature recovers, over THIS VAA's digest, to list[idx], every idx is inside
// the list and indices strictly increase. Completeness is demanded exactly when no guardian address would be counted
// twice (lists with repeated addresses: stricter behaviour is allowed, not demanded).
//
// Per signature slot the signature bytes are a symbolic selection among: a signature by each member key over the digest,
// a member signature over ANOTHER digest (body bit flipped), and 65 arbitrary bytes (malformed / outsider / replayed).
// The guardian index byte of every slot is fully symbolic.
func VerifC06_Verify() {
	n := zzverif.Len("n", 0, 1, 2, 3, 4, 19, 255)
	k := zzverif.Len("k", 0, 1, 2, 3, 4, 5)
	dup := zzverif.Len("dup", 0, 1) // 1: list[1] repeats list[0]
	v := verifBodyVAA()
	addrs := make([]common.Address, n)
	nk := n
	if nk > 4 {
		nk = 4 // distinct honest keys that sign; the remaining list entries are further distinct addresses
	}
	for i := range addrs {
		// guardians that never sign in this scenario: concrete, pairwise distinct addresses
		addrs[i] = common.Address{0: 0xA0, 1: byte(i >> 8), 2: byte(i), 19: 0x01}
	}
	// the keys that sign: positions 0..3, in long lists 0, 1 and the last two positions (so that valid signatures exist at
	// both ends of the index range: 17, 18 of 19 and 253, 254 of 255)
	keyPos := []int{0, 1, 2, 3}
	if n > 4 {
		keyPos = []int{0, 1, n - 2, n - 1}
	}
	for i := 0; i < nk; i++ {
		addrs[keyPos[i]] = common.Address(zzverif.AddrOf(i))
	}
	if dup == 1 {
		zzverif.Assume(n >= 2)
		addrs[1] = addrs[0]
	}
	digest := v.SigningMsg()
	other := digest
	other[zzverif.U8("flipbyte")%32] ^= 1 << (zzverif.U8("flipbit") % 8)

	for j := 0; j < k; j++ {
		// who produced slot j's signature bytes (shape fork): member key m over the digest (0..nk-1),
		// member 0 over the other digest (nk), 65 arbitrary bytes (nk+1), 65 bytes on which recovery certainly fails (nk+2)
		sel := zzverif.Len("sel", 0, 1, 2, 3, 4, 5, 6)
		zzverif.Assume(sel <= nk+2)
		s := &Signature{Index: zzverif.U8("idx")}
		if n > 19 {
			// long lists: the index byte ranges over the boundary values only (a symbolic index into a 255-entry
			// list makes every later query carry a 255-deep selection term)
			s.Index = uint8(zzverif.Len("idxv", 0, 1, 2, 3, 253, 254, 255))
		}
		switch {
		case sel < nk:
			copy(s.Signature[:], zzverif.SignBy(sel, digest[:]))
		case sel == nk:
			zzverif.Assume(nk > 0)
			copy(s.Signature[:], zzverif.SignBy(0, other[:]))
		case sel == nk+1:
			copy(s.Signature[:], zzverif.Blob("rawsig", 65))
		default:
			copy(s.Signature[:], zzverif.MalformedSig("badsig"))
		}
		v.Signatures = append(v.Signatures, s)
	}

	// reference predicate, computed independently of the implementation's control flow
	spec := true
	distinct := true
	last := -1
	for j, s := range v.Signatures {
		idx := int(s.Index)
		if idx >= n || idx <= last {
			spec = false
			break
		}
		last = idx
		pk, err := crypto.Ecrecover(digest[:], s.Signature[:])
		if err != nil {
			spec = false
			break
		}
		if common.BytesToAddress(crypto.Keccak256(pk[1:])[12:]) != addrs[idx] {
			spec = false
			break
		}
		for i := 0; i < j; i++ {
			if addrs[int(v.Signatures[i].Index)] == addrs[idx] {
				distinct = false
			}
		}
	}
	var got bool
	zzverif.NoPanic(func() { got = v.VerifySignatures(addrs) })
	zzverif.Assert(!got || spec, "sound")
	zzverif.Assert(!(spec && distinct) || got, "complete")
	if got {
		zzverif.Reach("accepted")
	} else {
		zzverif.Reach("rejected")
	}
}

// C06: any change of a body field changes the digest that signatures are checked against, so signatures made for one
// body never verify another (collision-freeness of Keccak assumed and stated).
func VerifC06_BodyBound() {
	v := verifBodyVAA()
	w := verifBodyVAA()
	zzverif.Assume(len(v.Payload) == len(w.Payload))
	sig := zzverif.SignBy(0, func() []byte { d := v.SigningMsg(); return d[:] }())
	s := &Signature{Index: 0}
	copy(s.Signature[:], sig)
	w.Signatures = []*Signature{s}
	addrs := []common.Address{common.Address(zzverif.AddrOf(0))}
	dv, dw := v.SigningMsg(), w.SigningMsg()
	_, _ = dv, dw
	zzverif.AssumeCollisionFree()
	got := w.VerifySignatures(addrs)
	same := v.Timestamp.Unix() == w.Timestamp.Unix() && v.Nonce == w.Nonce && v.Sequence == w.Sequence && v.ConsistencyLevel == w.ConsistencyLevel &&
		v.EmitterChain == w.EmitterChain && v.TargetChain == w.TargetChain && v.EmitterAddress == w.EmitterAddress && string(v.Payload) == string(w.Payload)
	zzverif.Assert(!got || same, "signature-bound-to-body")
	if got {
		zzverif.Reach("accepted")
	} else {
		zzverif.Reach("rejected")
	}
}

// C06: verification depends on the body as it is NOW: a VAA that verified stops verifying as soon as any body field is
// changed in place (no stale digest is ever used), and verifies again when the field is restored.
func VerifC06_MutateInPlace() {
	v := verifBodyVAA()
	d := v.SigningMsg()
	s := &Signature{Index: 0}
	copy(s.Signature[:], zzverif.SignBy(0, d[:]))
	v.Signatures = []*Signature{s}
	addrs := []common.Address{common.Address(zzverif.AddrOf(0))}
	zzverif.Assert(v.VerifySignatures(addrs), "valid-verifies")
	old := *v
	field := zzverif.Len("field", 0, 1, 2, 3, 4, 5, 6, 7)
	switch field {
	case 0:
		v.Timestamp = time.Unix(int64(zzverif.U32("ts2")), 0)
	case 1:
		v.Nonce = zzverif.U32("nonce2")
	case 2:
		v.Sequence = zzverif.U64("seq2")
	case 3:
		v.ConsistencyLevel = zzverif.U8("cl2")
	case 4:
		v.EmitterChain = ChainID(zzverif.U16("ec2"))
	case 5:
		v.TargetChain = ChainID(zzverif.U16("tc2"))
	case 6:
		v.EmitterAddress[zzverif.U8("ei")%32] ^= 1 << (zzverif.U8("eb") % 8)
	case 7:
		v.Payload[0] ^= 1 << (zzverif.U8("pb") % 8)
	}
	changed := v.Timestamp.Unix() != old.Timestamp.Unix() || v.Nonce != old.Nonce || v.Sequence != old.Sequence || v.ConsistencyLevel != old.ConsistencyLevel ||
		v.EmitterChain != old.EmitterChain || v.TargetChain != old.TargetChain || v.EmitterAddress != old.EmitterAddress || field == 7
	_ = v.SigningMsg()
	zzverif.AssumeCollisionFree()
	got := v.VerifySignatures(addrs)
	if changed {
		zzverif.Reach("changed")
		zzverif.Assert(!got, "tampered-body-rejected")
	} else {
		zzverif.Reach("unchanged")
		zzverif.Assert(got, "same-body-still-verifies")
	}
}

// C06: verification of one VAA is not disturbed by verification (or digest computation) of another VAA going on at the
// same time: a valid VAA verifies and a VAA with a tampered body carrying the same signature is rejected, whatever the
// schedule. Symbolic build: two goroutines, pre-emption before every mutex / channel / sync.Pool operation and before
// the return of any function that hands an object back to a pool. Native build: a stress loop.
func VerifC06_Concurrent() {
	a := verifBodyVAA()
	d := a.SigningMsg()
	s := &Signature{Index: 0}
	copy(s.Signature[:], zzverif.SignBy(0, d[:]))
	a.Signatures = []*Signature{s}
	b := *a
	b.Sequence = zzverif.U64("seq2")
	zzverif.Assume(b.Sequence != a.Sequence)
	addrs := []common.Address{common.Address(zzverif.AddrOf(0))}
	_ = b.SigningMsg()
	zzverif.AssumeCollisionFree() // over the pre-images hashed so far: the two bodies and the two inner digests
	rounds := 1
	if !zzverif.Symbolic() {
		rounds = 20000
	}
	for r := 0; r < rounds; r++ {
		var ra, rb bool
		var doneA, doneB atomic.Bool
		start := make(chan struct{})
		zzverif.Preemptive(true)
		go func() {
			if !zzverif.Symbolic() {
				<-start
			}
			ra = a.VerifySignatures(addrs)
			doneA.Store(true)
		}()
		go func() {
			if !zzverif.Symbolic() {
				<-start
			}
			rb = b.VerifySignatures(addrs)
			doneB.Store(true)
		}()
		if zzverif.Symbolic() {
			zzverif.Settle()
		} else {
			close(start)
			for w := 0; w < 4000 && !(doneA.Load() && doneB.Load()); w++ {
				time.Sleep(50 * time.Microsecond)
			}
		}
		zzverif.Preemptive(false)
		zzverif.Assert(doneA.Load() && doneB.Load(), "both-verifications-return")
		zzverif.Assert(ra, "valid-vaa-verifies-whatever-runs-concurrently")
		zzverif.Assert(!rb, "tampered-vaa-rejected-whatever-runs-concurrently")
	}
	zzverif.Reach("end")
}
