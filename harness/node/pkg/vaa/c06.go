package vaa

import (
	"time"

	"github.com/alephium/wormhole-fork/node/pkg/zzverif"
	"github.com/ethereum/go-ethereum/common"
)

// VerifC06: VerifySignatures accepts exactly valid, ordered, in-set signatures.
func VerifC06_Verify() {
	n := zzverif.Len("n", 0, 1, 2)
	k := zzverif.Len("k", 0, 1, 2)
	v := &VAA{Version: 1, Timestamp: time.Unix(int64(zzverif.U32("ts")), 0), Nonce: zzverif.U32("nonce"), Sequence: zzverif.U64("seq"),
		ConsistencyLevel: zzverif.U8("cl"), EmitterChain: ChainID(zzverif.U16("ec")), TargetChain: ChainID(zzverif.U16("tc")),
		Payload: zzverif.Bytes("payload", 2)}
	addrs := make([]common.Address, n)
	for i := range addrs {
		addrs[i] = common.Address(zzverif.AddrOf(i))
	}
	digest := v.SigningMsg()
	other := v.SigningMsg()
	other[0] ^= 1
	spec := k <= n
	last := -1
	signers := make([]int, 0, k)
	for j := 0; j < k; j++ {
		idx := zzverif.U8("idx")
		signer := zzverif.Len("signer", 0, 1, 2) // key ids 0..n-1 are members, n.. are outsiders
		overOther := zzverif.Bool("overOther")
		var sig []byte
		if overOther {
			sig = zzverif.SignBy(signer, other[:])
		} else {
			sig = zzverif.SignBy(signer, digest[:])
		}
		s := &Signature{Index: idx}
		copy(s.Signature[:], sig)
		v.Signatures = append(v.Signatures, s)
		ok := int(idx) < n && int(idx) > last && !overOther && signer == int(idx)
		spec = spec && ok
		last = int(idx)
		signers = append(signers, signer)
	}
	var got bool
	zzverif.NoPanic(func() { got = v.VerifySignatures(addrs) })
	zzverif.Assert(!got || spec, "sound")
	zzverif.Assert(!spec || got, "complete")
	if got {
		zzverif.Reach("accepted")
	} else {
		zzverif.Reach("rejected")
	}
}
