package supervisor

import (
	"context"
	"errors"
	"fmt"
	"time"

	"github.com/alephium/wormhole-fork/node/pkg/zzverif"
	"go.uber.org/zap"
)

func verifSup() *supervisor {
	s := &supervisor{logger: zap.NewNop(), ilogger: zap.NewNop(), pReq: make(chan *processorRequest, 32)}
	s.root = newNode("root", nil, s, nil)
	verifFastBackoff(s.root)
	return s
}

// back-off durations are arbitrary in the model; natively they are cut to about 1 ms so that Settle sees the reschedule
func verifFastBackoff(n *node) {
	n.bo.InitialInterval = time.Millisecond
	n.bo.MaxInterval = time.Millisecond
	n.bo.Reset()
}

func verifAdd(s *supervisor, parent *node, name string, group int) *node {
	c := newNode(name, nil, s, parent)
	verifFastBackoff(c)
	parent.children[name] = c
	for len(parent.groups) <= group {
		parent.groups = append(parent.groups, map[string]bool{})
	}
	parent.groups[group][name] = true
	return c
}

// tree shapes up to depth 3 / 4 nodes; returns the nodes in breadth-first order (root first)
func verifTree(s *supervisor, shape int) []*node {
	r := s.root
	switch shape {
	case 0:
		return []*node{r}
	case 1:
		return []*node{r, verifAdd(s, r, "a", 0)}
	case 2: // two children in one group
		return []*node{r, verifAdd(s, r, "a", 0), verifAdd(s, r, "b", 0)}
	case 3: // two children in different groups
		return []*node{r, verifAdd(s, r, "a", 0), verifAdd(s, r, "b", 1)}
	case 4: // chain of depth 3
		a := verifAdd(s, r, "a", 0)
		return []*node{r, a, verifAdd(s, a, "x", 0)}
	case 5: // a with a child, and a sibling b in the same group
		a := verifAdd(s, r, "a", 0)
		return []*node{r, a, verifAdd(s, r, "b", 0), verifAdd(s, a, "x", 0)}
	default: // a with two grouped children
		a := verifAdd(s, r, "a", 0)
		return []*node{r, a, verifAdd(s, a, "x", 0), verifAdd(s, a, "y", 0)}
	}
}

// puts a node in one of the five states the way the supervisor itself gets there (DEAD and CANCELED only ever follow
// a cancellation of the node's context)
func verifSetState(n *node, st nodeState) {
	n.state = st
	if st == nodeStateDead || st == nodeStateCanceled {
		n.ctxC()
	}
}

func verifSubtreeSettled(n *node) bool {
	if n.state != nodeStateDead && n.state != nodeStateCanceled && n.state != nodeStateDone {
		return false
	}
	for _, c := range n.children {
		if !verifSubtreeSettled(c) {
			return false
		}
	}
	return true
}

func verifDrainSchedules(s *supervisor) map[string]int {
	zzverif.Settle()
	out := map[string]int{}
	for len(s.pReq) > 0 {
		r := <-s.pReq
		if r.schedule != nil {
			out[r.schedule.dn]++
		}
	}
	return out
}

// C18: how a death is recorded. For every tree shape, every node, every prior state, with its context live or
// cancelled, and every kind of death message (nil, context error, wrapped context error, other error).
func VerifC18_Died() {
	s := verifSup()
	nodes := verifTree(s, zzverif.Len("shape", 0, 1, 2, 3, 4, 5, 6))
	who := zzverif.Len("who", 0, 1, 2, 3)
	zzverif.Assume(who < len(nodes))
	n := nodes[who]
	prior := nodeState(zzverif.U8("state")) // symbolic: NEW, HEALTHY or DONE - a function can only return while it was running or done
	zzverif.Assume(prior == nodeStateNew || prior == nodeStateHealthy || prior == nodeStateDone)
	n.state = prior
	cancelled := zzverif.Len("ctxCancelled", 0, 1) == 1
	if cancelled {
		n.ctxC()
	}
	var msg error
	switch zzverif.Len("death", 0, 1, 2, 3) {
	case 1:
		msg = context.Canceled
	case 2:
		msg = fmt.Errorf("service stopped: %w", context.Canceled)
	case 3:
		msg = errors.New("boom")
	}
	liveBefore := map[*node]bool{}
	for _, m := range nodes {
		liveBefore[m] = m.ctx.Err() == nil
	}
	s.processDied(&processorRequestDied{dn: n.dn(), err: msg})
	inner := msg
	for inner != nil {
		u := errors.Unwrap(inner)
		if u == nil {
			break
		}
		inner = u
	}
	isCtxErr := cancelled && inner == context.Canceled
	switch {
	case prior == nodeStateDone && msg == nil:
		zzverif.Reach("done-stays-done")
		zzverif.Assert(n.state == nodeStateDone, "completed-service-left-alone")
		for _, m := range nodes {
			zzverif.Assert((m.ctx.Err() == nil) == liveBefore[m], "completed-service-cancels-nothing")
		}
	case isCtxErr:
		zzverif.Reach("canceled")
		zzverif.Assert(n.state == nodeStateCanceled, "context-error-after-cancellation-is-a-cancellation")
	default:
		zzverif.Reach("dead")
		zzverif.Assert(n.state == nodeStateDead, "any-other-return-is-a-death")
		zzverif.Assert(n.ctx.Err() != nil, "dead-service-context-cancelled")
		for _, m := range nodes {
			if m == n || m.parent != n.parent || n.parent == nil {
				continue
			}
			sameGroup := n.parent.groupSiblings(n.name)[m.name]
			if sameGroup {
				zzverif.Assert(m.ctx.Err() != nil, "group-siblings-of-a-dead-service-cancelled")
			} else {
				zzverif.Assert((m.ctx.Err() == nil) == liveBefore[m], "services-of-other-groups-untouched")
			}
		}
	}
}

// C18: the restart scan. Every node in one of the five states (DEAD/CANCELED with cancelled context). A node is
// rescheduled only if it and its whole subtree have stopped (so no running instance is ever duplicated), only under a
// live parent context, never together with an ancestor; whatever has stopped and can be restarted is restarted (itself or
// through an ancestor); rescheduled nodes are reset; a second scan right afterwards schedules nothing twice.
func VerifC18_GC() {
	s := verifSup()
	nodes := verifTree(s, zzverif.Len("shape", 0, 1, 2, 3, 4, 5, 6))
	for _, n := range nodes {
		st := nodeState(zzverif.U8("state")) // symbolic state of every node
		zzverif.Assume(st <= nodeStateCanceled)
		verifSetState(n, st)
	}
	type snap struct {
		state      nodeState
		settled    bool
		parentLive bool
		dn         string
		parentDN   string
	}
	before := map[string]snap{}
	for _, n := range nodes {
		sn := snap{state: n.state, settled: verifSubtreeSettled(n), parentLive: n.parent == nil || n.parent.ctx.Err() == nil, dn: n.dn()}
		if n.parent != nil {
			sn.parentDN = n.parent.dn()
		}
		before[sn.dn] = sn
	}
	s.processGC()
	sched := verifDrainSchedules(s)
	covered := func(dn string) bool { // dn or one of its ancestors was rescheduled
		for d := dn; d != ""; d = before[d].parentDN {
			if sched[d] > 0 {
				return true
			}
		}
		return false
	}
	for dn, k := range sched {
		b := before[dn]
		zzverif.Reach("rescheduled")
		zzverif.Assert(k == 1, "rescheduled-once")
		zzverif.Assert(b.state == nodeStateDead || b.state == nodeStateCanceled, "only-stopped-services-are-restarted")
		zzverif.Assert(b.settled, "restarted-only-when-the-whole-subtree-has-stopped")
		zzverif.Assert(b.parentLive, "restarted-only-under-a-live-parent-context")
		if b.parentDN != "" {
			zzverif.Assert(!covered(b.parentDN), "not-restarted-together-with-an-ancestor")
		}
		n := s.nodeByDN(dn)
		zzverif.Assert(n.state == nodeStateNew && len(n.children) == 0 && n.ctx.Err() == nil, "restarted-service-is-reset-with-a-fresh-context")
	}
	for dn, b := range before {
		if (b.state == nodeStateDead || b.state == nodeStateCanceled) && b.settled && b.parentLive && (b.parentDN == "" || !covered(b.parentDN)) {
			zzverif.Assert(sched[dn] == 1, "stopped-service-with-stopped-subtree-is-restarted")
		}
		if b.state == nodeStateNew || b.state == nodeStateHealthy {
			zzverif.Assert(sched[dn] == 0, "running-service-never-scheduled-again")
		}
	}
	if len(sched) == 0 {
		zzverif.Reach("nothing-to-restart")
	}
	// a second scan before the scheduled starts happened must not schedule them again
	s.processGC()
	again := verifDrainSchedules(s)
	for dn := range again {
		zzverif.Assert(sched[dn] == 0, "second-scan-does-not-schedule-the-same-service-again")
	}
}

// C18: killing the supervisor cancels every service's context; the start wrapper reports exactly one death per instance,
// after the service function returned or panicked (panic capture on).
func VerifC18_KillAndWrapper() {
	s := verifSup()
	nodes := verifTree(s, zzverif.Len("shape", 0, 1, 2, 3, 4, 5, 6))
	s.processKill()
	for _, n := range nodes {
		zzverif.Assert(n.ctx.Err() != nil, "kill-cancels-every-context")
	}
	// wrapper
	s2 := verifSup()
	a := verifAdd(s2, s2.root, "a", 0)
	how := zzverif.Len("exit", 0, 1, 2)
	finished := false
	boom := errors.New("boom")
	// the node's context may have been cancelled while it waited out its back-off (its parent or a group member died
	// meanwhile): the schedule request must still lead to an end state the restart scan can work with - a node left in
	// state NEW with nothing running would block the restart of its parent forever
	lateCancel := zzverif.Len("cancelledDuringBackoff", 0, 1) == 1
	if lateCancel {
		a.ctxC()
	}
	a.runnable = func(ctx context.Context) error {
		defer func() { finished = true }()
		if lateCancel {
			<-ctx.Done()
			return ctx.Err()
		}
		switch how {
		case 1:
			return boom
		case 2:
			panic("service panicked")
		}
		return nil
	}
	s2.processSchedule(&processorRequestSchedule{dn: a.dn()})
	zzverif.Settle()
	if lateCancel {
		for len(s2.pReq) > 0 {
			if r := <-s2.pReq; r.died != nil {
				s2.processDied(r.died)
			}
		}
		zzverif.Reach("scheduled-after-cancellation")
		zzverif.Assert(a.state == nodeStateCanceled || a.state == nodeStateDead || a.state == nodeStateDone, "node-cancelled-during-back-off-still-reaches-an-end-state")
		zzverif.Reach("end")
		return
	}
	zzverif.Assert(finished, "service-function-ran")
	zzverif.Assert(len(s2.pReq) == 1, "exactly-one-death-report-per-instance")
	if len(s2.pReq) == 1 {
		r := <-s2.pReq
		zzverif.Assert(r.died != nil && r.died.dn == a.dn(), "death-report-names-the-service")
		if r.died != nil {
			switch how {
			case 0:
				zzverif.Assert(r.died.err == nil, "nil-return-reported")
			case 1:
				zzverif.Assert(r.died.err == boom, "error-return-reported")
			default:
				zzverif.Assert(r.died.err != nil, "panic-captured-and-reported")
			}
		}
	}
	zzverif.Reach("end")
}
