package supervisor

import (
	"context"
	"errors"
	"fmt"
	"time"

	"github.com/alephium/wormhole-fork/node/pkg/zzverif"
	"go.uber.org/zap"
)

// one supervised service as the harness sees it
type verifSvc struct {
	name    string
	running int   // instances inside the service function right now
	starts  int   // how often the service function was entered
	exits   []int // behaviour chosen for the k-th instance
	ended   int   // instances that have returned or panicked
	live    bool  // the supervisor's context had not been cancelled when the last instance started
	release chan struct{}

	overlapped  bool // two instances were inside the service function at once
	startedLate bool // an instance started after the supervisor's context had been cancelled
}

// behaviours of one instance of a service
const (
	verifReturnNil      = 0 // returns nil without signalling anything (a death)
	verifReturnErr      = 1 // returns an error
	verifPanic          = 2 // panics (panic capture is on)
	verifHealthyBlock   = 3 // signals healthy, runs until its context is cancelled, returns the context error
	verifDone           = 4 // signals healthy, then done, returns nil (completed)
	verifHealthyWrapped = 5 // as 3, but returns the context error wrapped
	verifSlowStop       = 6 // as 3, but after its context was cancelled it keeps running until the harness releases it
)

func (v *verifSvc) run(ctx context.Context, supLive *bool, before func(context.Context) error) (err error) {
	v.running++
	v.starts++
	v.live = *supLive
	// recorded, not asserted here: a panic inside a service is captured by the supervisor (panic capture is on)
	if v.running != 1 {
		v.overlapped = true
	}
	if !*supLive {
		v.startedLate = true
	}
	k := v.starts - 1
	how := verifHealthyBlock
	if k < len(v.exits) {
		how = v.exits[k]
	}
	defer func() { v.running--; v.ended++ }()
	if before != nil {
		if err := before(ctx); err != nil {
			return err
		}
	}
	switch how {
	case verifReturnNil:
		return nil
	case verifReturnErr:
		return errors.New("service failed")
	case verifPanic:
		panic("service panicked")
	case verifDone:
		Signal(ctx, SignalHealthy)
		Signal(ctx, SignalDone)
		return nil
	}
	Signal(ctx, SignalHealthy)
	<-ctx.Done()
	if how == verifSlowStop {
		<-v.release // still inside the service function although its context is cancelled
	}
	if how == verifHealthyWrapped {
		return fmt.Errorf("stopping: %w", ctx.Err())
	}
	return ctx.Err()
}

// natively the supervisor's goroutines need real time (back-off, 1 ms scan); symbolically Settle runs everything that can run
func verifUntil(cond func() bool) {
	zzverif.Settle()
	if zzverif.Symbolic() {
		return
	}
	for i := 0; i < 400 && !cond(); i++ {
		time.Sleep(10 * time.Millisecond)
	}
}

// C18, the REAL processor loop (supervisor.New, processor, processSchedule, processDied, processGC, processKill, Run,
// Signal) driven by the harness: the scan ticker fires when the harness says so; a root service, optionally with one child
// service; every instance of a service behaves in one of six ways (return nil / error / panic / healthy until cancelled /
// done / healthy, wrapped context error). Two or three scan ticks, then the supervisor's context is cancelled.
//   - never two instances of the same service inside the service function at once;
//   - an instance that died (returned without being done, returned an error, panicked) is followed by a new instance after
//     the next scan while the context is live, once its whole subtree has stopped;
//   - a service that signalled done is left alone; a healthy service is left alone;
//   - after the context is cancelled every instance returns and nothing is started any more.
func VerifC18_Loop() {
	zzverif.Tickers = nil
	ctx, cancel := context.WithCancel(context.Background())
	supLive := true
	withChild := zzverif.Len("withChild", 0, 1) == 1
	ticks := zzverif.Len("ticks", 2, 3)
	root := &verifSvc{name: "root", exits: []int{zzverif.Len("root.exit", 0, 1, 2, 3, 4, 5), zzverif.Len("root.exit", 3, 0, 1, 4)}}
	if ticks == 3 {
		root.exits = append(root.exits, zzverif.Len("root.exit", 3, 2))
	}
	child := &verifSvc{name: "a"}
	if withChild {
		child.exits = []int{zzverif.Len("child.exit", 3, 1, 2, 4, 5, 6), zzverif.Len("child.exit", 3, 1)}
		child.release = make(chan struct{})
	}
	var startChild func(context.Context) error
	if withChild {
		startChild = func(ctx context.Context) error {
			return Run(ctx, "a", func(ctx context.Context) error { return child.run(ctx, &supLive, nil) })
		}
	}
	sup := New(ctx, zap.NewNop(), func(ctx context.Context) error { return root.run(ctx, &supLive, startChild) })
	verifFastBackoff(sup.root)
	verifUntil(func() bool {
		return root.starts >= 1 && (!withChild || child.starts >= 1 || root.exits[0] != verifHealthyBlock)
	})
	zzverif.Assert(root.starts == 1, "root-service-started-once")

	released := false
	died := func(how int) bool { return how == verifReturnNil || how == verifReturnErr || how == verifPanic }
	for tick := 0; tick < ticks; tick++ {
		rs, cs := root.starts, child.starts
		rLast, cLast := root.exits[rs-1], verifHealthyBlock
		if withChild && cs >= 1 && cs-1 < len(child.exits) {
			cLast = child.exits[cs-1]
		}
		// a child that is slow to stop: its (dead) parent must not be restarted while the child's old instance is still running
		holding := withChild && cs >= 1 && cLast == verifSlowStop && child.running == 1 && died(rLast)
		zzverif.Tick(0) // the 1 ms scan
		if holding {
			zzverif.Reach("restart-waited")
			verifUntil(func() bool { return false })
			zzverif.Assert(root.starts == rs && child.starts == cs, "restart-waits-until-the-whole-subtree-has-stopped")
			released = true
			close(child.release)
			verifUntil(func() bool { return child.running == 0 })
			zzverif.Tick(0)
		}
		want := rs
		if died(rLast) {
			want = rs + 1
		}
		verifUntil(func() bool { return root.starts >= want })
		if died(rLast) {
			zzverif.Reach("restarted")
			zzverif.Assert(root.starts == rs+1, "failed-root-service-restarted-after-the-scan")
		} else {
			zzverif.Assert(root.starts == rs, "running-or-completed-root-service-left-alone")
			if withChild && rLast != verifDone && cs >= 1 {
				if died(cLast) {
					verifUntil(func() bool { return child.starts >= cs+1 })
					zzverif.Assert(child.starts == cs+1, "failed-child-service-restarted-after-the-scan")
				} else {
					zzverif.Assert(child.starts == cs, "running-or-completed-child-service-left-alone")
				}
			}
		}
		zzverif.Assert(!root.overlapped && !child.overlapped, "never-two-instances-of-a-service-at-once")
	}
	rs, cs := root.starts, child.starts
	supLive = false
	cancel()
	if withChild && !released && child.running == 1 && child.starts-1 < len(child.exits) && child.exits[child.starts-1] == verifSlowStop {
		zzverif.Settle() // the child notices the cancellation, but is slow to stop
		released = true
		close(child.release)
	}
	verifUntil(func() bool { return root.running == 0 && child.running == 0 })
	zzverif.Assert(root.running == 0, "cancelling-the-supervisor-stops-the-root-service")
	zzverif.Assert(child.running == 0, "cancelling-the-supervisor-stops-the-child-service")
	zzverif.Settle()
	zzverif.Assert(root.starts == rs && child.starts == cs && !root.startedLate && !child.startedLate, "nothing-started-after-cancellation")
	zzverif.Assert(!root.overlapped && !child.overlapped, "never-two-instances-of-a-service-at-once")
	zzverif.Reach("end")
}
