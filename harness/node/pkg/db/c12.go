package db

import (
	"bytes"
	"time"

	"github.com/alephium/wormhole-fork/node/pkg/vaa"
	"github.com/alephium/wormhole-fork/node/pkg/zzverif"
)

// chain ids are drawn from digit-count classes so that decimal renderings that are prefixes of one another
// (2 / 25 / 255, 1 / 10 / 10001) are all inside the explored space; the class is a shape (shardable), the value symbolic.
func verifChain(tag string) vaa.ChainID {
	c := zzverif.U16(tag)
	switch zzverif.Len(tag+".digits", 1, 2, 3, 5) {
	case 1:
		zzverif.Assume(c < 10)
	case 2:
		zzverif.Assume(c >= 10 && c < 100)
	case 3:
		zzverif.Assume(c >= 100 && c < 1000)
	default:
		zzverif.Assume(c >= 10000)
	}
	return vaa.ChainID(c)
}

func verifStoredVAA(tag string, maxSeq uint64) *vaa.VAA {
	v := &vaa.VAA{Version: 1, GuardianSetIndex: zzverif.U32(tag + ".gsi"), Timestamp: time.Unix(int64(zzverif.U32(tag+".ts")), 0),
		Nonce: zzverif.U32(tag + ".nonce"), Sequence: zzverif.U64(tag + ".seq"), ConsistencyLevel: zzverif.U8(tag + ".cl"),
		EmitterChain: verifChain(tag + ".ec"), TargetChain: verifChain(tag + ".tc"), Payload: zzverif.Bytes(tag+".payload", 1)}
	zzverif.Assume(v.Sequence <= maxSeq)
	v.EmitterAddress[31] = zzverif.U8(tag + ".addr31")
	v.EmitterAddress[0] = zzverif.U8(tag + ".addr0")
	s := &vaa.Signature{Index: zzverif.U8(tag + ".sigidx")}
	copy(s.Signature[:], zzverif.Blob(tag+".sig", 65))
	v.Signatures = []*vaa.Signature{s}
	return v
}

func verifSameStream(v *vaa.VAA, q vaa.VAAID) bool {
	return v.EmitterChain == q.EmitterChain && v.EmitterAddress == q.EmitterAddress && v.TargetChain == q.TargetChain
}

// C12: after storing n arbitrary VAAs (ids may coincide: overwrite), for an arbitrary query id
//   - lookup returns exactly the bytes last stored under that id, ErrVAANotFound otherwise;
//   - the gap scan of the query's stream reports exactly the sequences missing below the stream's maximum, computed
//     from the VAAs of THAT stream only (first <= min is all the statement demands of `first`).
func VerifC12_Store() {
	d, err := Open(zzverif.TempDir())
	if err != nil {
		panic(err)
	}
	defer d.Close()
	n := zzverif.Len("nvaa", 0, 1, 2, 3)
	maxSeq := uint64(zzverif.Len("maxseq", 3, 12)) // 12: one- and two-digit sequences (decimal keys do not sort numerically)
	vs := make([]*vaa.VAA, n)
	enc := make([][]byte, n)
	for i := range vs {
		vs[i] = verifStoredVAA("v", maxSeq)
		enc[i], _ = vs[i].Marshal()
		zzverif.Assert(d.StoreSignedVAA(vs[i]) == nil, "store-ok")
	}
	q := vaa.VAAID{EmitterChain: verifChain("q.ec"), TargetChain: verifChain("q.tc"), Sequence: zzverif.U64("q.seq")}
	zzverif.Assume(q.Sequence <= maxSeq)
	q.EmitterAddress[31] = zzverif.U8("q.addr31")
	q.EmitterAddress[0] = zzverif.U8("q.addr0")

	// ---- exact lookup ----
	var want []byte
	for i := range vs {
		if verifSameStream(vs[i], q) && vs[i].Sequence == q.Sequence {
			want = enc[i] // the last store under this id wins
		}
	}
	got, gerr := d.GetSignedVAABytes(q)
	if want == nil {
		zzverif.Reach("lookup-absent")
		zzverif.Assert(gerr == ErrVAANotFound, "absent-is-not-found")
	} else {
		zzverif.Reach("lookup-present")
		zzverif.Assert(gerr == nil, "present-is-found")
		zzverif.Assert(bytes.Equal(got, want), "byte-exact")
	}

	// ---- gap scan of q's stream ----
	present := map[uint64]bool{}
	var max uint64
	any := false
	for i := range vs {
		if verifSameStream(vs[i], q) {
			any = true
			present[vs[i].Sequence] = true
			if vs[i].Sequence > max {
				max = vs[i].Sequence
			}
		}
	}
	missing, first, last, ferr := d.FindEmitterSequenceGap(q)
	zzverif.Assert(ferr == nil, "gap-scan-ok")
	if ferr != nil {
		return
	}
	if any {
		zzverif.Reach("stream-nonempty")
	} else {
		zzverif.Reach("stream-empty")
	}
	zzverif.Assert(last == max, "last-is-stream-maximum")
	zzverif.Assert(first <= last, "first-not-above-last")
	// missing = exactly the absent sequences in [first, last], ascending
	k := 0
	for s := first; s <= last && s <= maxSeq; s++ {
		if !present[s] {
			zzverif.Assert(k < len(missing) && missing[k] == s, "missing-lists-absent-sequence")
			k++
		}
	}
	zzverif.Assert(k == len(missing), "missing-lists-nothing-else")
}

// C12: governance batches return exactly the requested sequences stored for the governance emitter (any target
// chain), with the stored bytes, unaffected by other emitters.
func VerifC12_GovBatch() {
	d, err := Open(zzverif.TempDir())
	if err != nil {
		panic(err)
	}
	defer d.Close()
	n := zzverif.Len("nvaa", 0, 1, 2)
	const maxSeq = 3
	vs := make([]*vaa.VAA, n)
	enc := make([][]byte, n)
	for i := range vs {
		vs[i] = verifStoredVAA("v", maxSeq)
		enc[i], _ = vs[i].Marshal()
		d.StoreSignedVAA(vs[i])
	}
	// distinct ids (an overwrite is covered by VerifC12_Store)
	if n == 2 {
		zzverif.Assume(!(vs[0].EmitterChain == vs[1].EmitterChain && vs[0].EmitterAddress == vs[1].EmitterAddress && vs[0].TargetChain == vs[1].TargetChain && vs[0].Sequence == vs[1].Sequence))
	}
	gc := verifChain("gov.ec")
	var ga vaa.Address
	ga[31] = zzverif.U8("gov.addr31")
	ga[0] = zzverif.U8("gov.addr0")
	want0 := zzverif.U64("req0")
	want1 := zzverif.U64("req1")
	zzverif.Assume(want0 <= maxSeq && want1 <= maxSeq)
	req := []uint64{want0, want1}
	if zzverif.Len("nreq", 2, 1) == 1 { // a single requested sequence (several target chains may carry it)
		req = []uint64{want0}
		want1 = want0
	}
	res, berr := d.GetGovernanceVAABatch(gc, ga, req)
	zzverif.Assert(berr == nil, "batch-ok")
	if berr != nil {
		return
	}
	expected := 0
	for i := range vs {
		if vs[i].EmitterChain == gc && vs[i].EmitterAddress == ga && (vs[i].Sequence == want0 || vs[i].Sequence == want1) {
			expected++
			found := false
			for _, r := range res {
				if r.Sequence == vs[i].Sequence && r.TargetChain == vs[i].TargetChain && bytes.Equal(r.VaaBytes, enc[i]) {
					found = true
				}
			}
			zzverif.Assert(found, "requested-governance-vaa-returned")
		}
	}
	zzverif.Assert(len(res) == expected, "nothing-else-returned")
	if expected > 0 {
		zzverif.Reach("some")
	} else {
		zzverif.Reach("none")
	}
}
