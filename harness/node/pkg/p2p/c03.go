package p2p

import (
	"fmt"

	node_common "github.com/alephium/wormhole-fork/node/pkg/common"
	gossipv1 "github.com/alephium/wormhole-fork/node/pkg/proto/gossip/v1"
	"github.com/alephium/wormhole-fork/node/pkg/zzverif"
	"github.com/ethereum/go-ethereum/common"
	ethcrypto "github.com/ethereum/go-ethereum/crypto"
	"github.com/libp2p/go-libp2p/core/peer"
)

const (
	verifHBPrefix  = "heartbeat|"
	verifReqPrefix = "signed_observation_request|"
)

func verifP2PSet(n int) *node_common.GuardianSet {
	keys := make([]common.Address, n)
	for i := range keys {
		keys[i] = common.Address(zzverif.AddrOf(i))
	}
	return &node_common.GuardianSet{Keys: keys}
}

// the signature an attacker may present for a message with body `body`: made by some key over the digest under the
// RIGHT domain prefix, by a member over the BARE body hash (the 32-byte pre-image shape of a VAA digest), by a member
// under the OTHER message type's prefix (cross-type replay), or 64/65/66 arbitrary bytes.
func verifP2PSig(body []byte, right, other string) []byte {
	good := ethcrypto.Keccak256Hash(append([]byte(right), body...))
	bare := ethcrypto.Keccak256Hash(body)
	cross := ethcrypto.Keccak256Hash(append([]byte(other), body...))
	vaaLike := ethcrypto.Keccak256Hash(bare[:]) // what a VAA signature is made over: keccak of a 32-byte pre-image
	var sig []byte
	switch zzverif.Len("sigkind", 0, 1, 2, 3, 4) {
	case 0:
		sig = zzverif.SignBy(zzverif.Len("signer", 0, 1, 2), good[:])
	case 1:
		sig = zzverif.SignBy(zzverif.Len("signer", 0, 1), bare[:])
	case 2:
		sig = zzverif.SignBy(zzverif.Len("signer", 0, 1), cross[:])
	case 3:
		sig = zzverif.SignBy(zzverif.Len("signer", 0, 1), vaaLike[:])
	default:
		sig = zzverif.Blob("rawsig", zzverif.Len("siglen", 64, 65, 66))
	}
	zzverif.AssumeCollisionFree()
	return sig
}

// the address the envelope claims: a harness key's address (0,1: members when the set is large enough, 2: outsider), 20
// arbitrary bytes, no bytes, 21 bytes. (Scenario-level choice so that counterexamples replay with the real keys.)
func verifP2PClaimed() []byte {
	switch k := zzverif.Len("claimed", 0, 1, 2, 3, 4, 5); k {
	case 0, 1, 2:
		a := zzverif.AddrOf(k)
		return a[:]
	case 3:
		return zzverif.Blob("claimedraw", 20)
	case 4:
		return nil
	default:
		return zzverif.Blob("claimedraw", 21)
	}
}

// bodies: arbitrary bytes, or (form 1) bytes that are certainly a well-formed protobuf message of the expected type -
// one length-delimited field filling the whole body - so that an accepted counterexample also replays on real protobuf
func verifP2PBody(L int, tag byte) []byte {
	body := zzverif.Bytes("body", L)
	if zzverif.Len("bodyform", 0, 1) == 1 {
		zzverif.Assume(L >= 2 && L < 130)
		if L >= 2 {
			zzverif.Assume(body[0] == tag && int(body[1]) == L-2)
			for i := 2; i < L; i++ {
				zzverif.Assume(body[i] < 0x80 && body[i] >= 0x20)
			}
		}
	}
	return body
}

// C03: a signed heartbeat changes the heartbeat table only if it is long enough, its signature - over the body under the
// heartbeat prefix - recovers to the address the envelope claims, and that address is in the guardian set; it is stored
// under the recovered signer; a rejected heartbeat leaves the table untouched.
func VerifC03_Heartbeat() {
	n := zzverif.Len("n", 0, 1, 2)
	gs := verifP2PSet(n)
	gst := node_common.NewGuardianSetState(nil)
	L := zzverif.Len("L", 0, 1, 22, 23, 24, 25, 40)
	body := verifP2PBody(L, 0x0a) // Heartbeat field 1: node_name (string)
	claimed := verifP2PClaimed()
	sig := verifP2PSig(body, verifHBPrefix, verifReqPrefix)
	good := ethcrypto.Keccak256Hash(append([]byte(verifHBPrefix), body...))
	s := &gossipv1.SignedHeartbeat{Heartbeat: body, Signature: sig, GuardianAddr: claimed}
	var hb *gossipv1.Heartbeat
	var err error
	zzverif.NoPanic(func() { hb, err = processSignedHeartbeat(peer.ID("peer"), s, gs, gst, false) })
	if err != nil {
		zzverif.Reach("rejected")
		zzverif.Assert(hb == nil, "nil-on-reject")
		zzverif.Assert(len(gst.GetAll()) == 0, "reject-leaves-table")
		return
	}
	zzverif.Reach("accepted")
	zzverif.Assert(len(verifHBPrefix)+L >= 34, "length-floor")
	pk, rerr := ethcrypto.Ecrecover(good[:], sig)
	zzverif.Assert(rerr == nil, "recovers-over-prefixed-digest")
	if rerr != nil {
		return
	}
	signer := common.BytesToAddress(ethcrypto.Keccak256(pk[1:])[12:])
	zzverif.Assert(signer == common.BytesToAddress(claimed), "signer-is-claimed")
	_, in := gs.KeyIndex(signer)
	zzverif.Assert(in, "signer-in-set")
	all := gst.GetAll()
	_, stored := all[signer]
	zzverif.Assert(stored && len(all) == 1, "stored-under-signer")
}

// C03: same for re-observation requests under their own prefix; only an accepted request is returned for forwarding.
func VerifC03_ObservationRequest() {
	n := zzverif.Len("n", 0, 1, 2)
	gs := verifP2PSet(n)
	L := zzverif.Len("L", 0, 1, 5, 6, 7, 8, 40)
	body := verifP2PBody(L, 0x12) // ObservationRequest field 2: tx_hash (bytes)
	claimed := verifP2PClaimed()
	sig := verifP2PSig(body, verifReqPrefix, verifHBPrefix)
	good := ethcrypto.Keccak256Hash(append([]byte(verifReqPrefix), body...))
	s := &gossipv1.SignedObservationRequest{ObservationRequest: body, Signature: sig, GuardianAddr: claimed}
	var req *gossipv1.ObservationRequest
	var err error
	zzverif.NoPanic(func() { req, err = processSignedObservationRequest(s, gs) })
	if err != nil {
		zzverif.Reach("rejected")
		zzverif.Assert(req == nil, "nothing-forwarded-on-reject")
		return
	}
	zzverif.Reach("accepted")
	zzverif.Assert(len(verifReqPrefix)+L >= 34, "length-floor")
	pk, rerr := ethcrypto.Ecrecover(good[:], sig)
	zzverif.Assert(rerr == nil, "recovers-over-prefixed-digest")
	if rerr != nil {
		return
	}
	signer := common.BytesToAddress(ethcrypto.Keccak256(pk[1:])[12:])
	zzverif.Assert(signer == common.BytesToAddress(claimed), "signer-is-claimed")
	_, in := gs.KeyIndex(signer)
	zzverif.Assert(in, "signer-in-set")
}

// C03: the heartbeat table never holds more than MaxNodesPerGuardian node entries per guardian: from a table with k
// entries for one guardian (every k up to the cap), storing a heartbeat from a new or a known peer keeps it <= cap.
func VerifC03_HeartbeatCap() {
	gst := node_common.NewGuardianSetState(nil)
	addr := common.Address(zzverif.AddrOf(0))
	k := zzverif.LenRange("k", 0, 16)
	for i := 0; i < k; i++ {
		_ = gst.SetHeartbeat(addr, peer.ID(fmt.Sprintf("peer-%02d", i)), &gossipv1.Heartbeat{Counter: int64(i)})
	}
	zzverif.Assert(len(gst.GetAll()[addr]) <= node_common.MaxNodesPerGuardian, "cap-while-filling")
	who := zzverif.Len("who", 0, 1) // 0: a peer already in the table (if any), 1: a new peer
	id := peer.ID("peer-00")
	if who == 1 {
		id = peer.ID("peer-new")
	}
	err := gst.SetHeartbeat(addr, id, &gossipv1.Heartbeat{Counter: 99})
	tab := gst.GetAll()[addr]
	zzverif.Assert(len(tab) <= node_common.MaxNodesPerGuardian, "cap")
	if err != nil {
		zzverif.Reach("refused")
		zzverif.Assert(len(tab) == node_common.MaxNodesPerGuardian, "refused-only-at-the-cap")
	} else {
		zzverif.Reach("stored")
		zzverif.Assert(tab[id] != nil && tab[id].Counter == 99, "stored-entry-is-the-new-heartbeat")
	}
}
