package p2p

import (
	node_common "github.com/alephium/wormhole-fork/node/pkg/common"
	gossipv1 "github.com/alephium/wormhole-fork/node/pkg/proto/gossip/v1"
	"github.com/alephium/wormhole-fork/node/pkg/zzverif"
	"github.com/ethereum/go-ethereum/common"
	ethcrypto "github.com/ethereum/go-ethereum/crypto"
	"github.com/libp2p/go-libp2p/core/peer"
)

// A signed heartbeat is accepted only if it is long enough, and its signature - over the PREFIXED body - recovers
// to the claimed address, which must be in the set; a rejected heartbeat leaves the table unchanged.
func VerifC03_Heartbeat() {
	n := zzverif.Len("n", 0, 1, 2)
	keys := make([]common.Address, n)
	for i := range keys {
		keys[i] = common.Address(zzverif.AddrOf(i))
	}
	gs := &node_common.GuardianSet{Keys: keys}
	gst := node_common.NewGuardianSetState(nil)
	L := zzverif.Len("L", 0, 1, 23, 24, 25)
	body := zzverif.Bytes("body", L)
	claimed := zzverif.Bytes("claimed", 20)

	// what an honest signer would have signed
	good := ethcrypto.Keccak256Hash(append([]byte("heartbeat|"), body...))
	// cross-domain material an attacker may hold: signatures by members over other pre-images
	bare := ethcrypto.Keccak256Hash(body)
	other := ethcrypto.Keccak256Hash(append([]byte("signed_observation_request|"), body...))

	var sig []byte
	switch zzverif.Len("sigkind", 0, 1, 2, 3) {
	case 0:
		sig = zzverif.SignBy(zzverif.Len("signer", 0, 1, 2), good[:])
	case 1:
		sig = zzverif.SignBy(zzverif.Len("signer", 0, 1), bare[:])
	case 2:
		sig = zzverif.SignBy(zzverif.Len("signer", 0, 1), other[:])
	default:
		sig = zzverif.Bytes("rawsig", zzverif.Len("siglen", 64, 65))
	}
	zzverif.AssumeCollisionFree()
	s := &gossipv1.SignedHeartbeat{Heartbeat: body, Signature: sig, GuardianAddr: claimed}
	var hb *gossipv1.Heartbeat
	var err error
	zzverif.NoPanic(func() { hb, err = processSignedHeartbeat(peer.ID("peer"), s, gs, gst, false) })
	if err != nil {
		zzverif.Reach("rejected")
		zzverif.Assert(hb == nil, "nil-on-reject")
		zzverif.Assert(len(gst.GetAll()) == 0, "reject-leaves-table")
		return
	}
	zzverif.Reach("accepted")
	zzverif.Assert(len("heartbeat|")+L >= 34, "length-floor")
	pk, rerr := ethcrypto.Ecrecover(good[:], sig)
	zzverif.Assert(rerr == nil, "recovers-over-prefixed-digest")
	if rerr != nil {
		return
	}
	signer := common.BytesToAddress(ethcrypto.Keccak256(pk[1:])[12:])
	zzverif.Assert(signer == common.BytesToAddress(claimed), "signer-is-claimed")
	_, in := gs.KeyIndex(signer)
	zzverif.Assert(in, "signer-in-set")
	all := gst.GetAll()
	_, stored := all[signer]
	zzverif.Assert(stored && len(all) == 1, "stored-under-signer")
}
