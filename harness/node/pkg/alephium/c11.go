package alephium

import (
	"bytes"
	"encoding/hex"
	"math/big"

	sdk "github.com/alephium/go-sdk"
	"github.com/alephium/wormhole-fork/node/pkg/vaa"
	"github.com/alephium/wormhole-fork/node/pkg/zzverif"
)

// a decimal numeral a node may report for a U256 field: `digits` characters, all decimal digits without a leading zero
// (form 0), with a leading '-' or '+' (forms 1, 2), with one arbitrary non-digit character at the end (form 3), with a
// leading zero (form 4), or with an arbitrary non-digit in second position (form 5)
func verifNumeral(tag string, digitCounts ...int) (s string, wellFormed bool) {
	d := zzverif.Len(tag+".digits", digitCounts...)
	b := zzverif.Bytes(tag, d)
	form := zzverif.Len(tag+".form", 0, 1, 2, 3, 4, 5)
	if form == 4 { // digits with a leading zero: still decimal ("010" is ten)
		zzverif.Assume(d >= 2)
		for i := range b {
			zzverif.Assume(b[i] >= '0' && b[i] <= '9')
		}
		if d >= 2 {
			zzverif.Assume(b[0] == '0')
		}
		return string(b), d >= 2
	}
	if form == 5 { // a non-digit in second position ("0x1", "1_0", "0b1"): never a decimal numeral
		zzverif.Assume(d >= 3)
		for i := range b {
			if i == 1 {
				zzverif.Assume(b[i] < '0' || b[i] > '9')
			} else {
				zzverif.Assume(b[i] >= '0' && b[i] <= '9')
			}
		}
		return string(b), false
	}
	if form == 3 {
		zzverif.Assume(d > 0)
		pos := 0
		if d > 1 {
			pos = d - 1
		}
		for i := range b {
			if i == pos {
				zzverif.Assume(b[i] < '0' || b[i] > '9')
			} else {
				zzverif.Assume(b[i] >= '0' && b[i] <= '9')
			}
		}
		return string(b), false
	}
	for i := range b {
		zzverif.Assume(b[i] >= '0' && b[i] <= '9')
	}
	if d > 1 {
		zzverif.Assume(b[0] != '0')
	}
	switch form {
	case 1:
		return "-" + string(b), d > 0
	case 2:
		return "+" + string(b), d > 0
	}
	return string(b), d > 0
}

func verifU256(s string) sdk.Val {
	typ := "U256"
	if zzverif.Len("u256.wrongtype", 0, 1) == 1 {
		typ = "I256"
	}
	return sdk.Val{ValU256: &sdk.ValU256{Type: typ, Value: s}}
}

// C11 narrowing conversions: a numeral is accepted iff it is well formed and its value fits the target width, and the
// result is exactly that value - no wrap, no truncation, no sign loss. V is computed by the harness with math/big.
func VerifC11_Narrowing() {
	width := zzverif.Len("width", 8, 16, 64)
	var counts []int
	switch width {
	case 8:
		counts = []int{0, 1, 2, 3, 4}
	case 16:
		counts = []int{1, 4, 5, 6}
	default:
		counts = []int{1, 19, 20, 21, 78}
	}
	s, wf := verifNumeral("num", counts...)
	f := verifU256(s)
	typed := f.ValU256.Type == "U256"
	V, parsed := new(big.Int).SetString(s, 10)
	zzverif.Assert(parsed == wf, "harness-numeral-forms")
	max := new(big.Int)
	var got uint64
	var err error
	switch width {
	case 8:
		max.SetString("255", 10)
		var r *uint8
		zzverif.NoPanic(func() { r, err = toUint8(f) })
		if err == nil {
			got = uint64(*r)
		}
	case 16:
		max.SetString("65535", 10)
		var r *uint16
		zzverif.NoPanic(func() { r, err = toUint16(f) })
		if err == nil {
			got = uint64(*r)
		}
	default:
		max.SetString("18446744073709551615", 10)
		var r *uint64
		zzverif.NoPanic(func() { r, err = toUint64(f) })
		if err == nil {
			got = *r
		}
	}
	fits := wf && typed && V.Sign() >= 0 && V.Cmp(max) <= 0
	if err == nil {
		zzverif.Reach("accepted")
		zzverif.Assert(wf && typed, "accepted-only-well-formed-and-typed")
		if wf {
			zzverif.Assert(V.Sign() >= 0, "negative-value-rejected")
			zzverif.Assert(V.Cmp(max) <= 0, "oversized-value-rejected")
			if fits {
				// compared at the target width (V <= max was asserted just above), which keeps both sides the same term
				switch width {
				case 8:
					zzverif.Assert(uint8(V.Uint64()) == uint8(got), "value-preserved")
				case 16:
					zzverif.Assert(uint16(V.Uint64()) == uint16(got), "value-preserved")
				default:
					zzverif.Assert(V.Uint64() == got, "value-preserved")
				}
			}
		}
	} else {
		zzverif.Reach("rejected")
		zzverif.Assert(!fits, "every-fitting-value-accepted")
	}
}

// byte-vector field: `n` raw bytes rendered as hex; defect 0 none, 1 odd number of hex digits, 2 non-hex characters, 3 wrong type tag
func verifByteVec(tag string, n int, defect int) (sdk.Val, []byte, bool) {
	raw := zzverif.Blob(tag, n)
	s := hex.EncodeToString(raw)
	typ := "ByteVec"
	switch defect {
	case 1:
		s += "a"
	case 2:
		s += "zz"
	case 3:
		typ = "Address"
	}
	return sdk.Val{ValByteVec: &sdk.ValByteVec{Type: typ, Value: s}}, raw, defect == 0
}

func verifDigits(tag string, d int) string {
	b := zzverif.Bytes(tag, d)
	for i := range b {
		zzverif.Assume(b[i] >= '0' && b[i] <= '9')
	}
	if d > 1 {
		zzverif.Assume(b[0] != '0')
	}
	return string(b)
}

// C11 field-by-field: an event with a 32-byte sender, a 4-byte nonce, any payload and in-range numerals decodes to a
// message with exactly those values; an event with ONE defect (wrong size, malformed hex, wrong type tag, out-of-range
// or malformed numeral, wrong field count, wrong variant) is an error. (Numerals in depth: VerifC11_Narrowing.)
func VerifC11_Message() {
	defect := zzverif.Len("defect", 0, 1, 2, 3, 4, 5, 6, 7, 8, 9, 10, 11, 12)
	senderLen, nonceLen := 32, 4
	sd, nd, pd := 0, 0, 0
	switch defect {
	case 1:
		senderLen = zzverif.Len("senderLen", 0, 31, 33)
	case 2:
		sd = zzverif.Len("senderDefect", 1, 2, 3)
	case 3:
		nonceLen = zzverif.Len("nonceLen", 0, 3, 5)
	case 4:
		nd = zzverif.Len("nonceDefect", 1, 2, 3)
	case 5:
		pd = zzverif.Len("payloadDefect", 1, 2, 3)
	}
	sender, senderRaw, ok0 := verifByteVec("sender", senderLen, sd)
	nonce, nonceRaw, ok3 := verifByteVec("nonce", nonceLen, nd)
	payload, payloadRaw, ok4 := verifByteVec("payload", zzverif.Len("plen", 0, 1, 100), pd)
	tcS := verifDigits("tc", zzverif.Len("tc.digits", 1, 5, 6))
	seqS := verifDigits("seq", zzverif.Len("seq.digits", 1, 20, 21))
	clS := verifDigits("cl", zzverif.Len("cl.digits", 1, 3, 4))
	if defect == 6 {
		tcS = "-" + tcS
	}
	if defect == 7 {
		seqS = seqS + "x"
	}
	if defect == 8 {
		clS = "-" + clS
	}
	tc := sdk.Val{ValU256: &sdk.ValU256{Type: "U256", Value: tcS}}
	seq := sdk.Val{ValU256: &sdk.ValU256{Type: "U256", Value: seqS}}
	cl := sdk.Val{ValU256: &sdk.ValU256{Type: "U256", Value: clS}}
	if defect == 9 {
		seq.ValU256.Type = "I256"
	}
	fields := []sdk.Val{sender, tc, seq, nonce, payload, cl}
	switch defect {
	case 10:
		fields = fields[:5]
	case 11:
		fields = append(fields, cl)
	case 12: // a numeric field delivered as another variant
		fields[1] = sdk.Val{ValByteVec: &sdk.ValByteVec{Type: "ByteVec", Value: "00"}}
	}
	var m *WormholeMessage
	var err error
	zzverif.NoPanic(func() { m, err = ToWormholeMessage(fields, "tx") })
	Vtc, p1 := new(big.Int).SetString(tcS, 10)
	Vseq, p2 := new(big.Int).SetString(seqS, 10)
	Vcl, p3 := new(big.Int).SetString(clS, 10)
	inRange := p1 && p2 && p3 && Vtc.Sign() >= 0 && Vtc.Cmp(big.NewInt(65535)) <= 0 && Vseq.Sign() >= 0 && Vseq.IsUint64() && Vcl.Sign() >= 0 && Vcl.Cmp(big.NewInt(255)) <= 0
	// a leading minus sign is only a defect through the VALUE it denotes ("-0" is zero): defects 6 and 8 are judged by inRange
	wellFormed := (defect == 0 || defect == 6 || defect == 8) && ok0 && ok3 && ok4
	if err != nil {
		zzverif.Reach("rejected")
		zzverif.Assert(m == nil, "nil-on-error")
		zzverif.Assert(!(wellFormed && inRange), "every-fitting-event-accepted")
		return
	}
	zzverif.Reach("accepted")
	zzverif.Assert(wellFormed, "accepted-only-without-defect")
	zzverif.Assert(inRange, "accepted-only-in-range")
	if !wellFormed || !inRange {
		return
	}
	zzverif.Assert(uint16(Vtc.Uint64()) == m.targetChainId, "target-chain-exact") // Vtc <= 65535 was asserted above
	zzverif.Assert(Vseq.Uint64() == m.Sequence, "sequence-exact")
	zzverif.Assert(uint8(Vcl.Uint64()) == m.consistencyLevel, "consistency-level-exact") // Vcl <= 255 was asserted above
	zzverif.Assert(bytes.Equal(m.senderId[:], senderRaw), "sender-exact")
	zzverif.Assert(m.nonce == uint32(nonceRaw[0])<<24|uint32(nonceRaw[1])<<16|uint32(nonceRaw[2])<<8|uint32(nonceRaw[3]), "nonce-exact")
	zzverif.Assert(bytes.Equal(m.payload, payloadRaw), "payload-exact")
	zzverif.Assert(m.txId == "tx", "txid")
}

// C11: the message publication carries the event's values, the Alephium chain id, and the block timestamp split into
// whole seconds and milliseconds.
func VerifC11_Publication() {
	w := &WormholeMessage{txId: hex.EncodeToString(zzverif.Blob("txid", 32)), targetChainId: zzverif.U16("tc"), nonce: zzverif.U32("nonce"),
		payload: zzverif.Bytes("payload", zzverif.Len("plen", 0, 1, 2)), Sequence: zzverif.U64("seq"), consistencyLevel: zzverif.U8("cl")}
	copy(w.senderId[:], zzverif.Blob("sender", 32))
	ts := zzverif.I64("ts")
	zzverif.Assume(ts >= 0 && ts < 1<<53) // milliseconds; the node reports a non-negative JSON integer
	h := &sdk.BlockHeaderEntry{Timestamp: ts}
	m := w.toMessagePublication(h)
	zzverif.Assert(m.Timestamp.Unix() == ts/1000, "whole-seconds")
	zzverif.Assert(int64(m.Timestamp.Nanosecond()) == (ts%1000)*1000000, "milliseconds")
	zzverif.Assert(m.EmitterChain == vaa.ChainIDAlephium && m.EmitterChain == 255, "alephium-chain-id")
	zzverif.Assert(m.TargetChain == vaa.ChainID(w.targetChainId) && m.Nonce == w.nonce && m.Sequence == w.Sequence && m.ConsistencyLevel == w.consistencyLevel, "fields-copied")
	zzverif.Assert(bytes.Equal(m.EmitterAddress[:], w.senderId[:]) && bytes.Equal(m.Payload, w.payload), "address-and-payload-copied")
	zzverif.Assert(hex.EncodeToString(m.TxHash[:]) == w.txId, "tx-hash")
	zzverif.Reach("end")
}

// C11: hex conversions are mutually inverse, and attestation payloads decode to the token id, decimals, symbol and
// name at the offsets the token bridge contract writes them (verifAttestLayout: extracted from token_bridge.ral).
func VerifC11_HexAndAttest() {
	var b Byte32
	copy(b[:], zzverif.Blob("b32", 32))
	back, err := HexToByte32(b.ToHex())
	zzverif.Assert(err == nil && back == b, "hex-roundtrip")
	_, err = HexToByte32(b.ToHex() + "00")
	zzverif.Assert(err != nil, "hex-wrong-length-rejected")

	L := zzverif.Len("alen", 99, 100, 101)
	p := zzverif.Bytes("attest", L)
	// names: printable characters with symbolic first/last two bytes (zero padding on either side is trimmed)
	for _, r := range [][2]int{{36, 68}, {68, 100}} {
		for i := r[0]; i < r[1] && i < L; i++ {
			if i >= r[0]+2 && i < r[1]-2 {
				zzverif.Assume(p[i] == 'A')
			}
		}
	}
	info, perr := parseAttestToken(p)
	chainOK := L == 100 && p[33] == 0 && p[34] == 255
	if perr != nil {
		zzverif.Reach("attest-rejected")
		zzverif.Assert(!chainOK, "well-formed-attestation-accepted")
		return
	}
	zzverif.Reach("attest-accepted")
	zzverif.Assert(chainOK, "attestation-length-and-chain-checked")
	lay := verifAttestLayout
	zzverif.Assert(lay.TokenID == [2]int{1, 33} && lay.Decimals == [2]int{35, 36} && lay.Symbol == [2]int{36, 68} && lay.Name == [2]int{68, 100} && lay.Total == 100, "contract-layout-as-decoded")
	zzverif.Assert(bytes.Equal(info.TokenId[:], p[lay.TokenID[0]:lay.TokenID[1]]), "token-id")
	zzverif.Assert(info.Decimals == p[lay.Decimals[0]], "decimals")
	zzverif.Assert(info.Symbol == string(bytes.Trim(p[lay.Symbol[0]:lay.Symbol[1]], "\x00")), "symbol")
	zzverif.Assert(info.Name == string(bytes.Trim(p[lay.Name[0]:lay.Name[1]], "\x00")), "name")
}

type verifAttest struct {
	TokenID, Decimals, Symbol, Name [2]int
	Total                           int
}
