package alephium

import (
	"context"
	"encoding/hex"
	"errors"
	"strconv"

	sdk "github.com/alephium/go-sdk"
	"github.com/alephium/wormhole-fork/node/pkg/zzverif"
	"go.uber.org/zap"
)

// kinds of events on the governance contract's event stream (anyone may publish there)
const (
	verifKBridge    = 0 // well-formed, token bridge caller
	verifKForeign   = 1 // well-formed, foreign caller (filtered later, at confirmation)
	verifKMalformed = 2 // wrong number of fields
	verifKBadNumber = 3 // consistency level "256"
	verifKAttest    = 4 // attestation-shaped payload naming a token contract (metadata calls: see mc)
)

func verifLogEvent(i int, kind int) sdk.ContractEvent {
	sender := verifBridge
	if kind == verifKForeign {
		sender = verifForeign
	}
	// ordinary events: the payload's first byte is symbolic but not the attestation id (whether an event is
	// attestation-shaped is the kind; everything else about the payload is the solver's choice)
	pb := zzverif.Bytes("payload", 2)
	zzverif.Assume(pb[0] != AttestTokenPayloadId)
	payload := hex.EncodeToString(pb)
	if i == 0 && kind != verifKAttest && zzverif.Len("emptyPayload", 0, 1) == 1 {
		payload = "" // a message may carry no payload at all
	}
	if kind == verifKAttest {
		p := make([]byte, 100)
		p[0] = AttestTokenPayloadId
		p[1], p[32] = 0x77, 0x05 // token id (not ALPH)
		p[33], p[34] = 0, 255
		p[35] = 8
		p[36], p[68] = 'S', 'N'
		payload = hex.EncodeToString(p)
	}
	// consistency level: a symbolic digit; out-of-range numerals are 256..259
	d := zzverif.U8("cldigit")
	zzverif.Assume(d >= '0' && d <= '9')
	cl := string([]byte{d})
	tc := "2"
	if kind == verifKBadNumber {
		zzverif.Assume(d >= '6')
		cl = "25" + cl
	} else if i == 0 && zzverif.Len("maxFields", 0, 1) == 1 {
		// the first event may carry the largest values that still fit the VAA format: level 250..255, target chain 65535
		zzverif.Assume(d <= '5')
		cl = "25" + cl
		tc = "65535"
	}
	f := []sdk.Val{
		{ValByteVec: &sdk.ValByteVec{Type: "ByteVec", Value: sender.ToHex()}},
		{ValU256: &sdk.ValU256{Type: "U256", Value: tc}},
		{ValU256: &sdk.ValU256{Type: "U256", Value: strconv.Itoa(1000 + i)}},
		{ValByteVec: &sdk.ValByteVec{Type: "ByteVec", Value: "00000001"}},
		{ValByteVec: &sdk.ValByteVec{Type: "ByteVec", Value: payload}},
		{ValU256: &sdk.ValU256{Type: "U256", Value: cl}},
	}
	if kind == verifKMalformed {
		f = f[:5]
	}
	return sdk.ContractEvent{BlockHash: "bh", TxId: "tx" + strconv.Itoa(i), EventIndex: WormholeMessageEventIndex, Fields: f}
}

// C09: the fetch loop against a node whose event log only grows. The log has n events of arbitrary kinds; L0 of them
// exist when the watcher starts; the others become visible at arbitrary moments (between the count request and the page
// requests, between page requests); pages have an arbitrary size. After two polls every convertible event that became
// visible has been delivered exactly once, whatever its neighbours are; nothing makes the loop spin, panic, or report a
// fatal error.
func VerifC09_Fetch() {
	w := verifWatcher(false)
	n := zzverif.Len("logsize", 1, 2, 3)
	kinds := make([]int, n)
	for i := range kinds {
		kinds[i] = zzverif.Len("kind", 0, 1, 2, 3, 4)
	}
	mc := zzverif.Len("mc", 0, 1, 2, 3, 4) // metadata multi-call outcome for attestation-shaped events
	L0 := zzverif.Len("initial", 0, 1)
	zzverif.Assume(L0 <= n)
	visible := L0
	grow := func() {
		if visible < n && zzverif.Len("grow", 0, 1) == 1 {
			visible++
		}
	}
	pageCalls, spin := 0, false
	var requested []int32
	zzverif.Hooks["Client.GetContractEventsCount"] = func(ctx context.Context, contractAddress string) (*int32, error) {
		c := int32(visible)
		grow()
		return &c, nil
	}
	zzverif.Hooks["Client.GetContractEvents"] = func(ctx context.Context, contractAddress string, from, group int32) (*sdk.ContractEvents, error) {
		pageCalls++
		requested = append(requested, from)
		if pageCalls > 8 {
			spin = true
			return nil, errors.New("harness: page budget exhausted")
		}
		size := zzverif.Len("pagesize", 1, 2, 3)
		to := int(from) + size
		if to > visible {
			to = visible
		}
		out := &sdk.ContractEvents{NextStart: int32(to)}
		for i := int(from); i < to; i++ {
			out.Events = append(out.Events, verifLogEvent(i, kinds[i]))
		}
		grow()
		return out, nil
	}
	ok := func(v sdk.Val) sdk.CallContractResult {
		return sdk.CallContractResult{CallContractSucceeded: &sdk.CallContractSucceeded{Returns: []sdk.Val{v}}}
	}
	failed := sdk.CallContractResult{CallContractFailed: &sdk.CallContractFailed{}}
	zzverif.Hooks["Client.MultiCallContract"] = func(ctx context.Context, multiCall *sdk.MultipleCallContract) (*sdk.MultipleCallContractResult, error) {
		sym := ok(sdk.Val{ValByteVec: &sdk.ValByteVec{Type: "ByteVec", Value: hex.EncodeToString([]byte("S"))}})
		name := ok(sdk.Val{ValByteVec: &sdk.ValByteVec{Type: "ByteVec", Value: hex.EncodeToString([]byte("N"))}})
		dec := ok(sdk.Val{ValU256: &sdk.ValU256{Type: "U256", Value: "8"}})
		switch mc {
		case 1:
			name = failed
		case 2:
			dec = failed
		case 3:
			sym = failed
		case 4:
			return &sdk.MultipleCallContractResult{Results: []sdk.CallContractResult{sym}}, nil
		}
		return &sdk.MultipleCallContractResult{Results: []sdk.CallContractResult{sym, name, dec}}, nil
	}
	ctx, cancel := context.WithCancel(context.Background())
	defer cancel()
	errC := make(chan error, 4)
	eventsC := make(chan []*UnconfirmedEvent, 4)
	go w.fetchEvents(ctx, zap.NewNop(), w.client, errC, eventsC)
	zzverif.Settle()
	delivered := map[uint64]int{}
	seenBeforeLastPoll := 0
	for poll := 0; poll < 3; poll++ {
		seenBeforeLastPoll = visible
		zzverif.MustNotBlock(func() { zzverif.Tick(0) })
		for len(eventsC) > 0 {
			for _, e := range <-eventsC {
				delivered[e.msg.Sequence]++
			}
		}
	}
	zzverif.Assert(!spin, "page-loop-terminates")
	zzverif.Assert(len(errC) == 0, "event-content-never-stops-the-watcher")
	// every event that was visible before the last poll started has been fetched; convertible ones delivered exactly once
	for i := L0; i < seenBeforeLastPoll; i++ {
		convertible := kinds[i] == verifKBridge || kinds[i] == verifKForeign || (kinds[i] == verifKAttest && mc == 0)
		got := delivered[uint64(1000+i)]
		if convertible {
			zzverif.Reach("delivered")
			zzverif.Assert(got == 1, "convertible-event-delivered-exactly-once")
		} else {
			zzverif.Reach("skipped")
			zzverif.Assert(got == 0, "junk-event-not-delivered")
		}
	}
	for i := seenBeforeLastPoll; i < n; i++ {
		zzverif.Assert(delivered[uint64(1000+i)] <= 1, "no-event-delivered-twice")
	}
	for i := 0; i < L0; i++ {
		zzverif.Assert(delivered[uint64(1000+i)] == 0, "events-older-than-the-start-are-not-fetched")
	}
	zzverif.Reach("end")
}
