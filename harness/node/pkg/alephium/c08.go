package alephium

import (
	"context"
	"encoding/hex"
	"errors"
	"fmt"
	"strconv"
	"sync/atomic"

	sdk "github.com/alephium/go-sdk"
	"github.com/alephium/wormhole-fork/node/pkg/common"
	gossipv1 "github.com/alephium/wormhole-fork/node/pkg/proto/gossip/v1"
	"github.com/alephium/wormhole-fork/node/pkg/zzverif"
	"go.uber.org/zap"
)

var verifBridge = Byte32{0: 0xB1, 31: 0x01}
var verifForeign = Byte32{0: 0xF0, 31: 0x02}

const verifGovAddr = "governance-contract-address"

func verifWatcher(mainnet bool) *Watcher {
	return &Watcher{governanceContractAddress: verifGovAddr, tokenBridgeContractId: verifBridge, chainIndex: &ChainIndex{},
		msgChan: make(chan *common.MessagePublication, 16), obsvReqC: make(chan *gossipv1.ObservationRequest, 1),
		blockPollerEnabled: &atomic.Bool{}, pollIntervalMs: 1, client: &Client{}, isMainnet: mainnet}
}

// reference confirmation duration (ms) as the property states it
func verifDuration(mainnet, transfer bool, cl uint8) int64 {
	n := int64(cl)
	if mainnet && transfer && n < 205 {
		n = 205
	}
	return n * 16000
}

// C08 (a): the confirmation predicate, for every block height, consistency level, block timestamp, clock reading,
// chain height, network and payload kind (heights below 2^30: no int32 wrap).
func VerifC08_Confirmed() {
	cl := zzverif.U8("cl")
	kind := zzverif.U8("kind")
	ev := &UnconfirmedEvent{ContractEvent: &sdk.ContractEvent{TxId: "tx"}, msg: &WormholeMessage{consistencyLevel: cl, payload: []byte{kind}}}
	h := &sdk.BlockHeaderEntry{Height: zzverif.I32("height"), Timestamp: zzverif.I64("ts")}
	now, cur := zzverif.I64("now"), zzverif.I32("cur")
	mainnet := zzverif.Bool("mainnet")
	zzverif.Assume(h.Height >= 0 && h.Height < 1<<30 && cur >= 0 && cur < 1<<30 && h.Timestamp >= 0 && h.Timestamp < 1<<52 && now >= 0 && now < 1<<52)
	got := isEventConfirmed(zap.NewNop(), ev, h, now, cur, mainnet)
	want := int64(h.Height)+int64(cl) <= int64(cur) && h.Timestamp+verifDuration(mainnet, kind == TransferTokenPayloadId, cl) <= now
	zzverif.Assert(!got || want, "confirmed-only-when-deep-and-old-enough")
	zzverif.Assert(!want || got, "deep-and-old-enough-is-confirmed")
	if got {
		zzverif.Reach("confirmed")
	} else {
		zzverif.Reach("unconfirmed")
	}
}

type verifEv struct {
	block     int
	seq       uint64
	cl        uint8
	kind      byte
	bridge    bool
	forwarded int
	gone      bool // was confirmed while its block was orphaned: must never be forwarded afterwards
}

// C08 (b): polling path. One batch of events in two blocks, then T height ticks. Per tick the chain height, the
// canonicity of each block (reorgs in both directions) and the clock are arbitrary. Every message handed to the signing
// pipeline must, AT THAT TICK, be confirmed (height and wall clock), in a canonical block, and sent by the bridge;
// each event is forwarded at most once; an event that was confirmed while orphaned is never forwarded later.
func VerifC08_Polling() {
	mainnet := zzverif.Len("mainnet", 0, 1) == 1
	w := verifWatcher(mainnet)
	T := zzverif.Len("ticks", 1, 2, 3)
	nev := zzverif.Len("events", 1, 2, 3)
	evs := make([]*verifEv, nev)
	var batch []*UnconfirmedEvent
	for i := range evs {
		e := &verifEv{block: i % 2, seq: uint64(100 + i), cl: zzverif.U8("cl"), kind: zzverif.U8("kind"), bridge: zzverif.Len("bridge", 1, 0) == 1}
		evs[i] = e
		sender := verifBridge
		if !e.bridge {
			sender = verifForeign
		}
		batch = append(batch, &UnconfirmedEvent{ContractEvent: &sdk.ContractEvent{BlockHash: fmt.Sprintf("block-%d", e.block), TxId: fmt.Sprintf("%064x", i), EventIndex: WormholeMessageEventIndex},
			msg: &WormholeMessage{txId: fmt.Sprintf("%064x", i), senderId: sender, targetChainId: 2, payload: []byte{e.kind, 0}, Sequence: e.seq, consistencyLevel: e.cl}})
	}
	heights := [2]int32{zzverif.I32("h0"), zzverif.I32("h1")}
	stamps := [2]int64{zzverif.I64("ts0"), zzverif.I64("ts1")}
	zzverif.Assume(heights[0] >= 0 && heights[0] < 1<<30 && heights[1] >= 0 && heights[1] < 1<<30 && stamps[0] >= 0 && stamps[0] < 1<<52 && stamps[1] >= 0 && stamps[1] < 1<<52)
	var canonical [2]bool
	failCheck := false
	blockOf := func(hash string) int {
		if hash == "block-0" {
			return 0
		}
		return 1
	}
	isMain := func(hash string) (*bool, error) {
		if failCheck {
			return nil, errors.New("node API error")
		}
		c := canonical[blockOf(hash)]
		return &c, nil
	}
	getHeader := func(hash string) (*sdk.BlockHeaderEntry, error) {
		b := blockOf(hash)
		return &sdk.BlockHeaderEntry{Hash: hash, Height: heights[b], Timestamp: stamps[b]}, nil
	}
	ctx, cancel := context.WithCancel(context.Background())
	defer cancel()
	errC := make(chan error, 1)
	eventsC := make(chan []*UnconfirmedEvent, 1)
	heightC := make(chan int32, 1)
	go w.handleEvents_(ctx, zap.NewNop(), isMain, getHeader, w.handleConfirmedEvents, errC, eventsC, heightC)
	zzverif.Settle()
	eventsC <- batch
	zzverif.Settle()
	for t := 0; t < T; t++ {
		cur := zzverif.I32("cur")
		zzverif.Assume(cur >= 0 && cur < 1<<30)
		canonical = [2]bool{zzverif.Bool("canon0"), zzverif.Bool("canon1")}
		failCheck = zzverif.Len("apiError", 0, 1) == 1
		before := zzverif.Now().UnixMilli()
		zzverif.MustNotBlock(func() { heightC <- cur; zzverif.Settle() })
		after := zzverif.Now().UnixMilli()
		_ = before
		for len(w.msgChan) > 0 {
			m := <-w.msgChan
			var e *verifEv
			for _, x := range evs {
				if x.seq == m.Sequence {
					e = x
				}
			}
			zzverif.Assert(e != nil, "forwarded-message-is-a-fetched-event")
			if e == nil {
				continue
			}
			zzverif.Reach("forwarded")
			e.forwarded++
			zzverif.Assert(e.forwarded == 1, "forwarded-at-most-once")
			zzverif.Assert(!failCheck, "nothing-forwarded-when-the-canonicity-check-failed")
			zzverif.Assert(canonical[e.block], "forwarded-only-from-a-block-canonical-at-that-moment")
			zzverif.Assert(e.bridge, "forwarded-only-when-sent-by-the-token-bridge")
			zzverif.Assert(int64(heights[e.block])+int64(e.cl) <= int64(cur), "forwarded-only-when-deep-enough")
			zzverif.Assert(stamps[e.block]+verifDuration(mainnet, e.kind == TransferTokenPayloadId, e.cl) <= after, "forwarded-only-when-old-enough")
			zzverif.Assert(!e.gone, "event-dropped-as-orphaned-never-comes-back")
			zzverif.Assert(m.ConsistencyLevel == e.cl && m.EmitterAddress == [32]byte(verifBridge), "message-fields-from-event") // the timestamp split is C11's subject
		}
		if len(errC) > 0 {
			zzverif.Reach("watcher-error")
			zzverif.Assert(failCheck, "only-api-errors-stop-the-loop")
			return
		}
		// an event that was confirmed at this tick while its block was not canonical has been dropped for good
		for _, e := range evs {
			if e.forwarded == 0 && !failCheck && !canonical[e.block] && int64(heights[e.block])+int64(e.cl) <= int64(cur) &&
				stamps[e.block]+verifDuration(mainnet, e.kind == TransferTokenPayloadId, e.cl) <= before {
				e.gone = true
			}
		}
	}
	zzverif.Reach("end")
}

// ---------- re-observation path ----------

type verifTxEvent struct {
	fromGov  bool
	index    int32
	bridge   bool
	transfer bool
	cl       uint8
	seq      uint64
}

func verifEventFields(e verifTxEvent) []sdk.Val {
	sender := verifBridge
	if !e.bridge {
		sender = verifForeign
	}
	payload := "0300" // neither a transfer nor an attestation (attestations: VerifC08_Attest)
	if e.transfer {
		payload = "0100"
	}
	return []sdk.Val{
		{ValByteVec: &sdk.ValByteVec{Type: "ByteVec", Value: sender.ToHex()}},
		{ValU256: &sdk.ValU256{Type: "U256", Value: "2"}},
		{ValU256: &sdk.ValU256{Type: "U256", Value: strconv.FormatUint(e.seq, 10)}},
		{ValByteVec: &sdk.ValByteVec{Type: "ByteVec", Value: "00000001"}},
		{ValByteVec: &sdk.ValByteVec{Type: "ByteVec", Value: payload}},
		{ValU256: &sdk.ValU256{Type: "U256", Value: strconv.FormatUint(uint64(e.cl), 10)}},
	}
}

// C08 (c): re-observation of one transaction. The node reports: the transaction's status, the events of the transaction
// (up to two; each emitted by the governance contract or by ANOTHER contract in the same transaction, event index 0 or 1,
// bridge or foreign caller, transfer or other payload), the block header, canonicity, the current height; any call may
// fail. A forwarded message must come from the governance contract with the bridge as caller, from a confirmed
// transaction in a canonical block that is deep enough - and, on mainnet transfers, old enough.
func VerifC08_Reobserve() {
	mainnet := zzverif.Len("mainnet", 0, 1) == 1
	w := verifWatcher(mainnet)
	nev := zzverif.Len("txevents", 0, 1, 2)
	evs := make([]verifTxEvent, nev)
	for i := range evs {
		evs[i] = verifTxEvent{fromGov: zzverif.Len("fromGov", 1, 0) == 1, index: int32(zzverif.Len("eventIndex", 0, 1)), bridge: zzverif.Len("bridge", 1, 0) == 1,
			transfer: zzverif.Len("transfer", 1, 0) == 1, cl: uint8(zzverif.Len("cl", 0, 1, 10)), seq: uint64(7 + i)}
	}
	confirmedTx := zzverif.Len("txConfirmed", 1, 0) == 1
	canonical := zzverif.Len("canonical", 1, 0) == 1
	failAt := zzverif.Len("failAt", 0, 1, 2, 3, 4, 5) // 0: no call fails
	height, ts, cur := zzverif.I32("height"), zzverif.I64("ts"), zzverif.I32("cur")
	zzverif.Assume(height >= 0 && height < 1<<30 && cur >= 0 && cur < 1<<30 && ts >= 0 && ts < 1<<52)
	calls := 0
	fail := func() bool { calls++; return calls == failAt }
	apiErr := errors.New("node API error")
	zzverif.Hooks["Client.GetTransactionStatus"] = func(ctx context.Context, txId string) (*sdk.TxStatus, error) {
		if fail() {
			return nil, apiErr
		}
		if !confirmedTx {
			return &sdk.TxStatus{MemPooled: &sdk.MemPooled{}}, nil
		}
		return &sdk.TxStatus{Confirmed: &sdk.Confirmed{BlockHash: "bh"}}, nil
	}
	zzverif.Hooks["Client.GetEventsByTxId"] = func(ctx context.Context, txId string) (*sdk.ContractEventsByTxId, error) {
		if fail() {
			return nil, apiErr
		}
		out := &sdk.ContractEventsByTxId{}
		for _, e := range evs {
			addr := verifGovAddr
			if !e.fromGov {
				addr = "some-other-contract"
			}
			out.Events = append(out.Events, sdk.ContractEventByTxId{BlockHash: "bh", ContractAddress: addr, EventIndex: e.index, Fields: verifEventFields(e)})
		}
		return out, nil
	}
	zzverif.Hooks["Client.GetBlockHeader"] = func(ctx context.Context, hash string) (*sdk.BlockHeaderEntry, error) {
		return &sdk.BlockHeaderEntry{Hash: hash, Height: height, Timestamp: ts}, nil
	}
	zzverif.Hooks["Client.IsBlockInMainChain"] = func(ctx context.Context, hash string) (*bool, error) {
		if fail() {
			return nil, apiErr
		}
		c := canonical
		return &c, nil
	}
	zzverif.Hooks["Client.GetCurrentHeight"] = func(ctx context.Context, chainIndex *ChainIndex) (*int32, error) {
		if fail() {
			return nil, apiErr
		}
		c := cur
		return &c, nil
	}
	ctx, cancel := context.WithCancel(context.Background())
	defer cancel()
	go w.handleObsvRequest(ctx, zap.NewNop(), w.client)
	zzverif.Settle()
	txHash, _ := hex.DecodeString("00000000000000000000000000000000000000000000000000000000000000aa")
	zzverif.MustNotBlock(func() { w.obsvReqC <- &gossipv1.ObservationRequest{ChainId: 255, TxHash: txHash}; zzverif.Settle() })
	nowMs := zzverif.Now().UnixMilli() // a clock reading after the request was handled: an upper bound of any reading the code made
	forwarded := 0
	for len(w.msgChan) > 0 {
		m := <-w.msgChan
		forwarded++
		zzverif.Reach("forwarded")
		var e *verifTxEvent
		for i := range evs {
			if evs[i].seq == m.Sequence {
				e = &evs[i]
			}
		}
		zzverif.Assert(e != nil, "forwarded-message-is-an-event-of-the-transaction")
		if e == nil {
			continue
		}
		zzverif.Assert(confirmedTx && canonical, "forwarded-only-from-a-confirmed-transaction-in-a-canonical-block")
		zzverif.Assert(e.index == WormholeMessageEventIndex, "forwarded-only-the-message-event")
		zzverif.Assert(e.bridge, "forwarded-only-when-sent-by-the-token-bridge")
		zzverif.Assert(e.fromGov, "forwarded-only-when-emitted-by-the-governance-contract")
		zzverif.Assert(int64(height)+int64(e.cl) <= int64(cur), "forwarded-only-when-deep-enough")
		if mainnet && e.transfer {
			zzverif.Assert(ts+verifDuration(true, true, e.cl) <= nowMs, "mainnet-transfer-forwarded-only-when-old-enough")
		}
	}
	if forwarded == 0 {
		zzverif.Reach("nothing-forwarded")
	}
	zzverif.Assert(failAt == 0 || failAt > calls || forwarded == 0, "nothing-forwarded-after-an-api-error")
}

func verifTrimZeros(b []byte) []byte {
	for len(b) > 0 && b[0] == 0 {
		b = b[1:]
	}
	for len(b) > 0 && b[len(b)-1] == 0 {
		b = b[:len(b)-1]
	}
	return b
}

// C08 (d): token attestations, polling and re-observation path alike. The event carries an attestation payload (length
// 99/100/101, token chain id, decimals, four symbol bytes and two name bytes symbolic; the ALPH token or a token contract
// in a symbolic group); the token contract reports a symbolic symbol, name and one of five decimals numerals. The event
// is kept for the signing pipeline only if the payload has the attestation length, names the Alephium chain and its
// decimals, symbol and name equal what the token contract (for ALPH: the protocol constants) reports - the contract
// being asked in the token's own group; an attestation that matches is kept.
func VerifC08_Attest() {
	w := verifWatcher(false)
	plen := zzverif.Len("plen", 100, 99, 101)
	p := make([]byte, plen)
	p[0] = AttestTokenPayloadId
	alph := zzverif.Len("alphToken", 0, 1) == 1
	if !alph {
		p[1], p[32] = 0x77, zzverif.U8("group")
	}
	tc := zzverif.Blob("tokenChain", 2)
	p[33], p[34] = tc[0], tc[1]
	p[35] = zzverif.U8("dec")
	sym, name := zzverif.Blob("sym", 4), zzverif.Blob("name", 2)
	copy(p[36:], sym)
	if alph {
		copy(p[68:], "Alephium")
		p[68+7] = name[0]
	} else {
		copy(p[68:], name)
	}
	csym, cname := zzverif.Blob("csym", 4), zzverif.Blob("cname", 2)
	cdec := zzverif.Len("cdec", 8, 0, 18, 255, 256)
	asked := 0
	groupsOK := true
	zzverif.Hooks["Client.MultiCallContract"] = func(ctx context.Context, multiCall *sdk.MultipleCallContract) (*sdk.MultipleCallContractResult, error) {
		asked++
		for _, c := range multiCall.Calls {
			if c.Group != int32(p[32]) {
				groupsOK = false
			}
		}
		ok := func(v sdk.Val) sdk.CallContractResult {
			return sdk.CallContractResult{CallContractSucceeded: &sdk.CallContractSucceeded{Returns: []sdk.Val{v}}}
		}
		return &sdk.MultipleCallContractResult{Results: []sdk.CallContractResult{
			ok(sdk.Val{ValByteVec: &sdk.ValByteVec{Type: "ByteVec", Value: hex.EncodeToString(csym)}}),
			ok(sdk.Val{ValByteVec: &sdk.ValByteVec{Type: "ByteVec", Value: hex.EncodeToString(cname)}}),
			ok(sdk.Val{ValU256: &sdk.ValU256{Type: "U256", Value: strconv.Itoa(cdec)}}),
		}}, nil
	}
	fields := []sdk.Val{
		{ValByteVec: &sdk.ValByteVec{Type: "ByteVec", Value: verifBridge.ToHex()}},
		{ValU256: &sdk.ValU256{Type: "U256", Value: "2"}},
		{ValU256: &sdk.ValU256{Type: "U256", Value: "7"}},
		{ValByteVec: &sdk.ValByteVec{Type: "ByteVec", Value: "00000001"}},
		{ValByteVec: &sdk.ValByteVec{Type: "ByteVec", Value: hex.EncodeToString(p)}},
		{ValU256: &sdk.ValU256{Type: "U256", Value: "1"}},
	}
	ctx := context.Background()
	kept := false
	if zzverif.Len("path", 0, 1) == 0 {
		var res []*UnconfirmedEvent
		var err error
		zzverif.NoPanic(func() {
			res, err = w.handleUnconfirmedEvents(ctx, zap.NewNop(), &sdk.ContractEvents{Events: []sdk.ContractEvent{
				{BlockHash: "bh", TxId: "tx", EventIndex: WormholeMessageEventIndex, Fields: fields}}})
		})
		zzverif.Assert(err == nil, "attestation-never-stops-the-watcher")
		kept = len(res) == 1
	} else {
		zzverif.Hooks["Client.GetEventsByTxId"] = func(ctx context.Context, txId string) (*sdk.ContractEventsByTxId, error) {
			return &sdk.ContractEventsByTxId{Events: []sdk.ContractEventByTxId{
				{BlockHash: "bh", ContractAddress: verifGovAddr, EventIndex: WormholeMessageEventIndex, Fields: fields}}}, nil
		}
		zzverif.Hooks["Client.GetBlockHeader"] = func(ctx context.Context, hash string) (*sdk.BlockHeaderEntry, error) {
			return &sdk.BlockHeaderEntry{Hash: hash, Height: 5, Timestamp: 1000}, nil
		}
		var res []*reobservedEvent
		zzverif.NoPanic(func() { res, _ = w.getGovernanceEventsByTxId(ctx, zap.NewNop(), w.client, verifGovAddr, "bh", "tx") })
		kept = len(res) == 1
	}
	wellFormed := plen == AttestTokenPayloadLength && tc[0] == 0 && tc[1] == 255
	var matches bool
	if alph {
		matches = p[35] == 18 && string(verifTrimZeros(sym)) == "ALPH" && name[0] == 'm'
	} else {
		matches = cdec <= 255 && int(p[35]) == cdec && string(verifTrimZeros(sym)) == string(verifTrimZeros(csym)) &&
			string(verifTrimZeros(name)) == string(verifTrimZeros(cname))
	}
	if kept {
		zzverif.Reach("attestation-kept")
		zzverif.Assert(wellFormed, "kept-attestation-has-the-attestation-layout")
		zzverif.Assert(matches, "kept-attestation-equals-what-the-token-contract-reports")
		if !alph {
			zzverif.Assert(asked > 0 && groupsOK, "token-contract-asked-in-the-token-group")
		}
	} else {
		zzverif.Reach("attestation-dropped")
		zzverif.Assert(!(wellFormed && matches), "matching-attestation-is-kept")
	}
}
