package publicrpc

import (
	"bytes"
	"context"
	"encoding/hex"
	"time"

	"github.com/alephium/wormhole-fork/node/pkg/db"
	publicrpcv1 "github.com/alephium/wormhole-fork/node/pkg/proto/publicrpc/v1"
	"github.com/alephium/wormhole-fork/node/pkg/vaa"
	"github.com/alephium/wormhole-fork/node/pkg/zzverif"
	"go.uber.org/zap"
)

func verifStoredVAA(tag string) *vaa.VAA {
	v := &vaa.VAA{Version: 1, GuardianSetIndex: zzverif.U32(tag + ".gsi"), Timestamp: time.Unix(int64(zzverif.U32(tag+".ts")), 0),
		Nonce: zzverif.U32(tag + ".nonce"), Sequence: zzverif.U64(tag + ".seq"), ConsistencyLevel: zzverif.U8(tag + ".cl"),
		EmitterChain: vaa.ChainID(zzverif.U16(tag + ".ec")), TargetChain: vaa.ChainID(zzverif.U16(tag + ".tc")), Payload: zzverif.Bytes(tag+".payload", 1)}
	copy(v.EmitterAddress[:], zzverif.Blob(tag+".addr", 32))
	s := &vaa.Signature{Index: zzverif.U8(tag + ".sigidx")}
	copy(s.Signature[:], zzverif.Blob(tag+".sig", 65))
	v.Signatures = []*vaa.Signature{s}
	return v
}

// a chain number as the wire carries it: a 32-bit enum value, which need not be a 16-bit chain id
func verifChainNumber(tag string) publicrpcv1.ChainID {
	c := zzverif.I32(tag)
	switch zzverif.Len(tag+".class", 0, 1, 2) {
	case 0:
		zzverif.Assume(c >= 0 && c <= 65535)
	case 1:
		zzverif.Assume(c > 65535)
	default:
		zzverif.Assume(c < 0)
	}
	return publicrpcv1.ChainID(c)
}

// the requested emitter address as the wire carries it: a string. 0: hex of 32 symbolic bytes, 1: 31 bytes, 2: 33 bytes,
// 3: 64 characters one of which is not a hex digit, 4: upper-case hex, 5: empty
func verifAddrString(tag string) (s string, addr vaa.Address, wellFormed bool) {
	b := zzverif.Blob(tag, 33)
	switch zzverif.Len(tag+".form", 0, 1, 2, 3, 4, 5) {
	case 0:
		copy(addr[:], b[:32])
		return hex.EncodeToString(b[:32]), addr, true
	case 1:
		return hex.EncodeToString(b[:31]), addr, false
	case 2:
		return hex.EncodeToString(b[:33]), addr, false
	case 3:
		h := []byte(hex.EncodeToString(b[:32]))
		h[17] = 'g'
		return string(h), addr, false
	case 4: // upper-case digits (concrete address bytes; one symbolic byte rendered by the harness)
		for i := range addr {
			addr[i] = byte(0xa0 + i)
		}
		addr[31] = b[31]
		zzverif.Assume(addr[31]>>4 >= 10 && addr[31]&15 < 10)
		h := []byte("A0A1A2A3A4A5A6A7A8A9AAABACADAEAFB0B1B2B3B4B5B6B7B8B9BABBBCBDBE")
		return string(append(h, 'A'+(addr[31]>>4-10), '0'+addr[31]&15)), addr, true
	default:
		return "", addr, false
	}
}

// C12, public RPC: with 0..2 arbitrary VAAs in the store, GetSignedVAA for an arbitrary request (32-bit chain numbers,
// address string of six forms, any sequence) returns bytes only if a VAA is stored under EXACTLY the requested
// identifier - then byte for byte - and an error otherwise; GetNonGovernanceVAABatch returns exactly the requested
// sequences present in exactly the requested stream, in request order.
func VerifC12_PublicRPC() {
	d, err := db.Open(zzverif.TempDir())
	if err != nil {
		panic(err)
	}
	defer d.Close()
	n := zzverif.Len("nvaa", 0, 1, 2)
	vs := make([]*vaa.VAA, n)
	enc := make([][]byte, n)
	for i := range vs {
		vs[i] = verifStoredVAA("v")
		enc[i], _ = vs[i].Marshal()
		zzverif.Assume(d.StoreSignedVAA(vs[i]) == nil)
	}
	s := &PublicrpcServer{logger: zap.NewNop(), db: d}
	ec, tc := verifChainNumber("q.ec"), verifChainNumber("q.tc")
	addrStr, addr, wellFormed := verifAddrString("q.addr")
	seq := zzverif.U64("q.seq")
	stored := func(sq uint64) []byte { // the bytes last stored under exactly (ec, addr, tc, sq), nil if none
		var want []byte
		for i := range vs {
			if wellFormed && int32(vs[i].EmitterChain) == int32(ec) && int32(vs[i].TargetChain) == int32(tc) &&
				vs[i].EmitterAddress == addr && vs[i].Sequence == sq {
				want = enc[i]
			}
		}
		return want
	}
	ctx := context.Background()

	var resp *publicrpcv1.GetSignedVAAResponse
	var rerr error
	zzverif.NoPanic(func() {
		resp, rerr = s.GetSignedVAA(ctx, &publicrpcv1.GetSignedVAARequest{MessageId: &publicrpcv1.MessageID{
			EmitterChain: ec, EmitterAddress: addrStr, TargetChain: tc, Sequence: seq}})
	})
	if want := stored(seq); want != nil {
		zzverif.Reach("rpc-present")
		zzverif.Assert(rerr == nil && resp != nil && bytes.Equal(resp.VaaBytes, want), "rpc-returns-stored-bytes")
	} else {
		zzverif.Reach("rpc-absent")
		zzverif.Assert(rerr != nil && resp == nil, "rpc-returns-nothing-for-another-identifier")
	}

	seq2 := zzverif.U64("q.seq2")
	var reqSeqs []uint64
	switch zzverif.Len("nreq", 0, 1, 2, 21) {
	case 1:
		reqSeqs = []uint64{seq}
	case 2:
		reqSeqs = []uint64{seq, seq2}
	case 21:
		reqSeqs = make([]uint64, 21)
		reqSeqs[20] = seq
	}
	var bresp *publicrpcv1.GetNonGovernanceVAABatchResponse
	var berr error
	zzverif.NoPanic(func() {
		bresp, berr = s.GetNonGovernanceVAABatch(ctx, &publicrpcv1.GetNonGovernanceVAABatchRequest{
			EmitterChain: ec, EmitterAddress: addrStr, TargetChain: tc, Sequences: reqSeqs})
	})
	if berr != nil {
		zzverif.Reach("batch-rejected")
		zzverif.Assert(bresp == nil, "rejected-batch-returns-nothing")
		// a well-formed request for at most 20 sequences is answered
		inRange := int32(ec) >= 0 && int32(ec) <= 65535 && int32(tc) >= 0 && int32(tc) <= 65535
		zzverif.Assert(!(wellFormed && inRange && len(reqSeqs) <= 20), "well-formed-batch-request-answered")
		return
	}
	zzverif.Reach("batch-answered")
	zzverif.Assert(len(reqSeqs) <= 20, "batch-size-limit")
	k := 0
	for _, sq := range reqSeqs {
		if want := stored(sq); want != nil {
			zzverif.Assert(k < len(bresp.Entries) && bresp.Entries[k].Sequence == sq && bytes.Equal(bresp.Entries[k].VaaBytes, want), "batch-entry-is-the-stored-vaa-of-the-requested-stream")
			k++
		}
	}
	zzverif.Assert(k == len(bresp.Entries), "batch-returns-nothing-else")
}
