package spy

import (
	"bytes"
	"context"
	"encoding/hex"
	"errors"
	"time"

	publicrpcv1 "github.com/alephium/wormhole-fork/node/pkg/proto/publicrpc/v1"
	spyv1 "github.com/alephium/wormhole-fork/node/pkg/proto/spy/v1"
	"github.com/alephium/wormhole-fork/node/pkg/vaa"
	"github.com/alephium/wormhole-fork/node/pkg/zzverif"
	"go.uber.org/zap"
	"google.golang.org/grpc"
)

// fake gRPC stream of one subscriber: draining (records what it is sent), stalled (Send never returns) or failing
type verifStream struct {
	grpc.ServerStream
	ctx     context.Context
	got     [][]byte
	stalled bool
	failing bool // the connection broke: every Send returns an error
	sends   int
	hang    chan struct{}
}

func (s *verifStream) Context() context.Context { return s.ctx }
func (s *verifStream) Send(r *spyv1.SubscribeSignedVAAResponse) error {
	if s.stalled {
		<-s.hang // the client stopped reading: the send never completes
		return errors.New("stream closed")
	}
	s.sends++
	if s.failing {
		return errors.New("transport is closing")
	}
	s.got = append(s.got, r.VaaBytes)
	return nil
}

type verifFilter struct {
	chain int32 // as the wire carries it: a 32-bit enum value, which need not be a 16-bit chain id
	addr  vaa.Address
}

// C20: nsub subscribers (0..2 filters each, chain and last address byte symbolic, filters may coincide), a stream of
// VAAs with symbolic emitter chain/address; one subscriber may be stalled from the start. Every draining subscriber
// receives exactly the VAAs that match (no filters = everything); with a stalled subscriber every Publish still returns,
// the others still receive, a new subscription still registers and a disconnect is still cleaned up.
func VerifC20_Delivery() {
	nsub := zzverif.Len("nsub", 1, 2, 3)
	nvaa := zzverif.Len("nvaa", 1, 2, 3)
	stalledSub := zzverif.Len("stalledSub", 9, 0, 1, 2) // 9: nobody stalls
	zzverif.Assume(stalledSub == 9 || stalledSub < nsub)
	// one subscriber's connection may be broken instead: its first Send fails (the client went away without the stream's
	// context having been cancelled yet), its handler returns, and its subscription must go with it
	failSub := 9
	if stalledSub == 9 {
		failSub = zzverif.Len("failSub", 9, 0, 1)
		zzverif.Assume(failSub == 9 || failSub < nsub)
	}
	s := newSpyServer(zap.NewNop())
	streams := make([]*verifStream, nsub)
	filters := make([][]verifFilter, nsub)
	cancels := make([]context.CancelFunc, nsub)
	refused := make([]bool, nsub)
	outOfRange := false
	publishing := false
	for i := 0; i < nsub; i++ {
		nf := zzverif.Len("nfilters", 0, 1, 2)
		req := &spyv1.SubscribeSignedVAARequest{}
		for f := 0; f < nf; f++ {
			fl := verifFilter{chain: int32(zzverif.U16("f.chain"))}
			if i == 0 && f == 0 && zzverif.Len("f.chainOutOfRange", 0, 1) == 1 {
				// the first filter may name a chain number that is not a 16-bit chain id: it matches no VAA at all
				fl.chain = zzverif.I32("f.chain32")
				zzverif.Assume(fl.chain < 0 || fl.chain > 65535)
				outOfRange = true
			}
			fl.addr[31] = zzverif.U8("f.addr")
			filters[i] = append(filters[i], fl)
			req.Filters = append(req.Filters, &spyv1.FilterEntry{Filter: &spyv1.FilterEntry_EmitterFilter{EmitterFilter: &spyv1.EmitterFilter{
				ChainId: publicrpcv1.ChainID(fl.chain), EmitterAddress: hex.EncodeToString(fl.addr[:])}}})
		}
		ctx, cancel := context.WithCancel(context.Background())
		cancels[i] = cancel
		streams[i] = &verifStream{ctx: ctx, stalled: i == stalledSub, failing: i == failSub, hang: make(chan struct{})}
		st := streams[i]
		i := i
		go func() {
			if err := s.SubscribeSignedVAA(req, st); err != nil && st.ctx.Err() == nil && !publishing {
				refused[i] = true
			}
		}()
		zzverif.Settle()
	}
	// a subscription may be refused only for a filter that can never match (an out-of-range chain number)
	nreg := nsub
	for i := range refused {
		if refused[i] {
			zzverif.Assert(i == 0 && outOfRange, "only-a-malformed-subscription-is-refused")
			zzverif.Assert(len(streams[i].got) == 0, "refused-subscription-receives-nothing")
			nreg--
		}
	}
	zzverif.Assert(len(s.subs) == nreg, "all-subscriptions-registered")

	publishing = true
	vaas := make([][]byte, nvaa)
	emit := make([]verifFilter, nvaa)
	for j := 0; j < nvaa; j++ {
		v := &vaa.VAA{Version: 1, Timestamp: time.Unix(1, 0), EmitterChain: vaa.ChainID(zzverif.U16("v.chain")), Payload: []byte{byte(j + 1)}, Sequence: uint64(j)}
		v.EmitterAddress[31] = zzverif.U8("v.addr")
		emit[j] = verifFilter{int32(v.EmitterChain), v.EmitterAddress}
		vaas[j], _ = v.Marshal()
		var perr error
		zzverif.MustNotBlock(func() { perr = s.Publish(vaas[j]); zzverif.Settle() })
		zzverif.Assert(perr == nil, "publish-ok")
	}
	if failSub != 9 && !refused[failSub] {
		hit := len(filters[failSub]) == 0
		for _, f := range filters[failSub] {
			for j := 0; j < nvaa; j++ {
				if f == emit[j] {
					hit = true
				}
			}
		}
		if hit {
			zzverif.Reach("send-failed")
			zzverif.Assert(streams[failSub].sends == 1, "handler-returns-at-the-first-failed-send")
			zzverif.Assert(len(s.subs) == nreg-1, "subscriber-whose-send-failed-is-removed")
			if len(s.subs) == nreg-1 {
				nreg--
				refused[failSub] = true // gone: no longer counted below
			}
		}
	}
	for i := 0; i < nsub; i++ {
		if i == stalledSub || i == failSub || refused[i] {
			continue
		}
		for j := 0; j < nvaa; j++ {
			match := len(filters[i]) == 0
			for _, f := range filters[i] {
				if f == emit[j] {
					match = true
				}
			}
			times := 0
			for _, g := range streams[i].got {
				if bytes.Equal(g, vaas[j]) {
					times++
				}
			}
			if match {
				zzverif.Reach("delivered")
				zzverif.Assert(times >= 1, "matching-vaa-delivered")
			} else {
				zzverif.Reach("filtered")
				zzverif.Assert(times == 0, "non-matching-vaa-not-delivered")
			}
		}
	}
	// registration and removal keep working
	nctx, ncancel := context.WithCancel(context.Background())
	ns := &verifStream{ctx: nctx, hang: make(chan struct{})}
	zzverif.MustNotBlock(func() {
		go func() { _ = s.SubscribeSignedVAA(&spyv1.SubscribeSignedVAARequest{}, ns) }()
		zzverif.Settle()
	})
	zzverif.Assert(len(s.subs) == nreg+1, "new-subscription-registers")
	zzverif.MustNotBlock(func() { ncancel(); zzverif.Settle() })
	zzverif.Assert(len(s.subs) == nreg, "disconnected-subscription-removed")
	// churn: the first subscriber leaves, a new one joins, and the remaining subscribers keep receiving
	if stalledSub == 9 && failSub == 9 && !refused[0] {
		c0 := cancels[0]
		zzverif.MustNotBlock(func() { c0(); zzverif.Settle() })
		zzverif.Assert(len(s.subs) == nreg-1, "first-subscription-removed")
		cctx, ccancel := context.WithCancel(context.Background())
		cs := &verifStream{ctx: cctx, hang: make(chan struct{})}
		go func() { _ = s.SubscribeSignedVAA(&spyv1.SubscribeSignedVAARequest{}, cs) }()
		zzverif.Settle()
		zzverif.Assert(len(s.subs) == nreg, "late-subscription-registered")
		x := &vaa.VAA{Version: 1, Timestamp: time.Unix(2, 0), EmitterChain: vaa.ChainID(zzverif.U16("x.chain")), Payload: []byte{0xEE}, Sequence: 99}
		x.EmitterAddress[31] = zzverif.U8("x.addr")
		xb, _ := x.Marshal()
		zzverif.MustNotBlock(func() { _ = s.Publish(xb); zzverif.Settle() })
		has := func(st *verifStream) bool {
			for _, g := range st.got {
				if bytes.Equal(g, xb) {
					return true
				}
			}
			return false
		}
		zzverif.Assert(has(cs), "late-subscriber-receives")
		for i := 1; i < nsub; i++ {
			match := len(filters[i]) == 0
			for _, f := range filters[i] {
				if f.chain == int32(x.EmitterChain) && f.addr == x.EmitterAddress {
					match = true
				}
			}
			zzverif.Assert(has(streams[i]) == match, "earlier-subscriber-unaffected-by-churn")
		}
		zzverif.Assert(!has(streams[0]), "departed-subscriber-gets-nothing")
		ccancel()
		zzverif.Settle()
	}
	for i := range cancels {
		if i != stalledSub {
			c := cancels[i]
			zzverif.MustNotBlock(func() { c(); zzverif.Settle() })
		}
	}
	want := 0
	if stalledSub != 9 && !refused[stalledSub] && nvaa > 0 {
		want = 1 // the stalled one is stuck inside Send and cannot notice its context
	}
	zzverif.Assert(len(s.subs) == want, "all-disconnected-subscriptions-removed")
	zzverif.Reach("end")
}
