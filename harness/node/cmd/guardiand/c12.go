package guardiand

import (
	"context"
	"encoding/hex"
	"time"

	"github.com/alephium/wormhole-fork/node/pkg/db"
	nodev1 "github.com/alephium/wormhole-fork/node/pkg/proto/node/v1"
	"github.com/alephium/wormhole-fork/node/pkg/vaa"
	"github.com/alephium/wormhole-fork/node/pkg/zzverif"
	"go.uber.org/zap"
)

// C12, operator RPC for gap detection: FindMissingMessages for an arbitrary request (32-bit chain numbers, the emitter
// address as a string of four forms) over a store with 0..2 arbitrary VAAs reports the gaps of exactly the named
// stream: a request that names no 16-bit chain / no 32-byte address names an EMPTY stream (or is rejected) - it must not
// be answered from another stream's VAAs.
func VerifC12_FindMissing() {
	d, err := db.Open(zzverif.TempDir())
	if err != nil {
		panic(err)
	}
	defer d.Close()
	const maxSeq = 3
	n := zzverif.Len("nvaa", 0, 1, 2)
	vs := make([]*vaa.VAA, n)
	for i := range vs {
		v := &vaa.VAA{Version: 1, Timestamp: time.Unix(1, 0), Sequence: zzverif.U64("v.seq"), Payload: []byte{1},
			EmitterChain: vaa.ChainID(zzverif.U16("v.ec")), TargetChain: vaa.ChainID(zzverif.U16("v.tc"))}
		zzverif.Assume(v.Sequence <= maxSeq && v.EmitterChain < 10 && v.TargetChain < 10) // one-digit chains: other digit counts are C12's store entry
		v.EmitterAddress[0], v.EmitterAddress[31] = zzverif.U8("v.addr0"), zzverif.U8("v.addr31")
		v.Signatures = []*vaa.Signature{{Index: 0}}
		vs[i] = v
		zzverif.Assume(d.StoreSignedVAA(v) == nil)
	}
	chainArg := func(tag string) uint32 {
		c := zzverif.U32(tag)
		if zzverif.Len(tag+".class", 0, 1) == 0 {
			zzverif.Assume(c < 10)
		} else {
			zzverif.Assume(c > 65535 && c&0xffff < 10) // wraps onto a one-digit chain if truncated
		}
		return c
	}
	ec, tc := chainArg("q.ec"), chainArg("q.tc")
	var qa vaa.Address
	qa[0], qa[31] = zzverif.U8("q.addr0"), zzverif.U8("q.addr31")
	form := zzverif.Len("q.addr.form", 0, 1, 2, 3)
	addrStr := hex.EncodeToString(qa[:])
	switch form {
	case 1:
		addrStr = hex.EncodeToString(qa[:31])
	case 2:
		addrStr = hex.EncodeToString(append(qa[:], 0))
	case 3:
		addrStr = "zz" + addrStr[2:]
	}
	s := &nodePrivilegedService{db: d, logger: zap.NewNop()}
	var resp *nodev1.FindMissingMessagesResponse
	var rerr error
	zzverif.NoPanic(func() {
		resp, rerr = s.FindMissingMessages(context.Background(), &nodev1.FindMissingMessagesRequest{EmitterChain: ec, EmitterAddress: addrStr, TargetChain: tc})
	})
	if rerr != nil {
		zzverif.Reach("rejected")
		zzverif.Assert(!(ec < 10 && tc < 10 && form == 0), "well-formed-request-answered")
		return
	}
	zzverif.Reach("answered")
	// the named stream, as the request states it
	present := map[uint64]bool{}
	var max uint64
	for _, v := range vs {
		if form == 0 && uint32(v.EmitterChain) == ec && uint32(v.TargetChain) == tc && v.EmitterAddress == qa {
			present[v.Sequence] = true
			if v.Sequence > max {
				max = v.Sequence
			}
		}
	}
	zzverif.Assert(resp.LastSequence == max, "last-is-the-maximum-of-the-named-stream")
	zzverif.Assert(resp.FirstSequence <= resp.LastSequence, "first-not-above-last")
	missing := 0
	for q := resp.FirstSequence; q <= resp.LastSequence && q <= maxSeq; q++ {
		if !present[q] {
			missing++
		}
	}
	zzverif.Assert(len(resp.MissingMessages) == missing, "missing-counts-only-the-named-stream")
}
