package guardiand

import (
	"bytes"
	"sync/atomic"
	"context"
	"time"

	"github.com/alephium/wormhole-fork/node/pkg/common"
	gossipv1 "github.com/alephium/wormhole-fork/node/pkg/proto/gossip/v1"
	"github.com/alephium/wormhole-fork/node/pkg/vaa"
	"github.com/alephium/wormhole-fork/node/pkg/zzverif"
	"github.com/benbjohnson/clock"
	"go.uber.org/zap"
)

// harness clock: the dispatcher only calls Now() and Ticker(); time moves when the harness says so
type verifClock struct {
	clock.Clock
	now   time.Time
	tickC chan time.Time
}

func (c *verifClock) Now() time.Time { return c.now }
func (c *verifClock) Ticker(d time.Duration) *clock.Ticker {
	return &clock.Ticker{C: c.tickC}
}

// C17: K events through the real dispatcher goroutine. An event is: a clock advance (any amount up to ~18 min)
// (0, 6 min, 8 min 30 s - older than the purge period, younger than the window - or 11 min 1 s) followed by either a purge tick or a request for (any 32-bit chain id - 2 and 255 have watchers -, any transaction hash byte); before each request
// the harness may fill or drain the two watcher queues (capacity 1). Ghost: time of the last forward per (chain, tx).
func VerifC17_Dispatch() {
	K := zzverif.Len("K", 1, 2, 3, 4, 5)
	ctx, cancel := context.WithCancel(context.Background())
	defer cancel()
	clk := &verifClock{now: time.Unix(1700000000, 0), tickC: make(chan time.Time, 1)}
	reqC := make(chan *gossipv1.ObservationRequest, 1)
	q := map[vaa.ChainID]chan *gossipv1.ObservationRequest{2: make(chan *gossipv1.ObservationRequest, 1), 255: make(chan *gossipv1.ObservationRequest, 1)}
	go handleReobservationRequests(ctx, clk, zap.NewNop(), reqC, q)
	zzverif.Settle()

	type key struct {
		chain uint32
		tx    byte
	}
	lastForward := map[key]time.Time{}
	lastTick := clk.now
	cachedSince := map[key]time.Time{} // what the dispatcher may still remember (forward time), purged by ticks
	for step := 0; step < K; step++ {
		// clock advance before the event: none, six minutes, or just over the eleven-minute window (concrete choices: a
		// symbolic duration would put time.Add's division by 10^9 in front of the solver)
		adv := []time.Duration{0, 6 * time.Minute, 11*time.Minute + time.Second, 8*time.Minute + 30*time.Second}[zzverif.Len("advance", 0, 1, 2, 3)]
		clk.now = clk.now.Add(adv)
		if zzverif.Len("ev", 0, 1) == 0 {
			// purge tick
			zzverif.MustNotBlock(func() { clk.tickC <- clk.now; zzverif.Settle() })
			for k, t := range cachedSince {
				if clk.now.Sub(t) > 11*time.Minute {
					delete(cachedSince, k)
				}
			}
			lastTick = clk.now
			continue
		}
		chain := zzverif.U32("chain") // ANY chain id: 2 and 255 have watchers, everything else is unknown
		tx := zzverif.U8("tx")        // ANY transaction byte: whether two requests name the same transaction is the solver's choice
		// watcher queue state before the request: drained, or left as it is (possibly full from an earlier forward)
		if zzverif.Len("drain", 0, 1) == 1 {
			for _, c := range q {
				for len(c) > 0 {
					<-c
				}
			}
		}
		full := map[vaa.ChainID]int{2: len(q[2]), 255: len(q[255])}
		req := &gossipv1.ObservationRequest{ChainId: chain, TxHash: []byte{tx, 0xaa}}
		zzverif.MustNotBlock(func() { reqC <- req; zzverif.Settle() })
		zzverif.Assert(len(reqC) == 0, "dispatcher-consumed-the-request")
		k := key{chain, tx}
		// what arrived where
		forwarded := false
		for cid, c := range q {
			if len(c) > full[cid] {
				zzverif.Assert(uint32(cid) == chain, "forwarded-only-to-the-named-chain")
				forwarded = true
				got := <-c
				zzverif.Assert(got.ChainId == chain && bytes.Equal(got.TxHash, req.TxHash), "forwarded-request-is-the-request")
				c <- got // the watcher has not read it yet: the queue stays full until the harness drains it
			}
		}
		known := chain == 2 || chain == 255
		_, remembered := cachedSince[k]
		if forwarded {
			zzverif.Reach("forwarded")
			if t, ok := lastForward[k]; ok {
				// the dispatcher forgets only at a tick, after 11 minutes
				zzverif.Assert(lastTick.After(t) && lastTick.Sub(t) > 11*time.Minute, "at-most-once-per-suppression-window")
			}
			lastForward[k] = clk.now
			cachedSince[k] = clk.now
		} else {
			zzverif.Reach("not-forwarded")
			roomy := known && full[vaa.ChainID(chain)] == 0
			// no live cache entry + known chain + room => must be forwarded (so: dropped requests were not remembered,
			// and a lapsed window forwards again)
			zzverif.Assert(!(roomy && !remembered), "fresh-request-with-room-is-forwarded")
		}
	}
	// posting to a full outbound queue fails at once
	out := make(chan *gossipv1.ObservationRequest, 1)
	zzverif.Assert(common.PostObservationRequest(out, &gossipv1.ObservationRequest{}) == nil, "post-with-room")
	var perr error
	zzverif.MustNotBlock(func() { perr = common.PostObservationRequest(out, &gossipv1.ObservationRequest{}) })
	zzverif.Assert(perr == common.ErrChanFull, "post-to-full-queue-fails-immediately")
	zzverif.Reach("end")
}

// C17: posting to the outbound request queue never stalls the caller, also when several callers (processor cleanup,
// admin RPC) post at once and race for the last free slot. Symbolic build: all interleavings of two posters at the
// granularity of channel operations (pre-emption before every send / len / cap / select). Native build: a stress loop.
func VerifC17_PostRace() {
	free := zzverif.Len("free", 0, 1, 2)
	rounds := 1
	if !zzverif.Symbolic() {
		rounds = 3000
	}
	for r := 0; r < rounds; r++ {
		out := make(chan *gossipv1.ObservationRequest, 2)
		for i := 0; i < 2-free; i++ {
			out <- &gossipv1.ObservationRequest{}
		}
		res := make([]error, 2)
		var returned [2]atomic.Bool
		start := make(chan struct{})
		zzverif.Preemptive(true)
		for i := 0; i < 2; i++ {
			i := i
			go func() {
				if !zzverif.Symbolic() {
					<-start
				}
				res[i] = common.PostObservationRequest(out, &gossipv1.ObservationRequest{ChainId: uint32(i)})
				returned[i].Store(true)
			}()
		}
		if zzverif.Symbolic() {
			zzverif.Settle()
		} else {
			close(start)
			for w := 0; w < 200 && !(returned[0].Load() && returned[1].Load()); w++ {
				time.Sleep(250 * time.Microsecond)
			}
		}
		zzverif.Preemptive(false)
		zzverif.Assert(returned[0].Load() && returned[1].Load(), "every-poster-returns-without-stalling")
		if returned[0].Load() && returned[1].Load() {
			ok := 0
			for i := 0; i < 2; i++ {
				if res[i] == nil {
					ok++
				} else {
					zzverif.Assert(res[i] == common.ErrChanFull, "failure-is-ErrChanFull")
				}
			}
			zzverif.Assert(ok == free && len(out) == 2-free+ok, "as-many-posts-succeed-as-there-were-free-slots")
		}
	}
	zzverif.Reach("end")
}
