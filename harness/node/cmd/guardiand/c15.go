package guardiand

import (
	"bytes"
	"context"
	"encoding/hex"
	"strings"

	nodev1 "github.com/alephium/wormhole-fork/node/pkg/proto/node/v1"
	"github.com/alephium/wormhole-fork/node/pkg/vaa"
	"github.com/alephium/wormhole-fork/node/pkg/zzverif"
	"go.uber.org/zap"
)

// contract-side parsers, generated from governance.ral / token_bridge_governance.ral on every run (gen_c15.go)
type verifGovField struct {
	Name     string
	From, To int // To = -1: up to the end of the payload
}
type verifGovParser struct {
	ModuleHex     string
	Action        int
	Fields        []verifGovField
	SizeBase      int
	SizeLenField  string // "" = fixed size
	SizeLenFactor int
}

const verifM32 = "mmmmmmmmmmmmmmmmmmmmmmmmmmmmmmmm"
const verifM33 = "mmmmmmmmmmmmmmmmmmmmmmmmmmmmmmmmm"

var verifGovChain = vaa.ChainID(1)
var verifGovEmitter = vaa.Address{31: 4}

func verifHexField(tag string, lens ...int) (s string, raw []byte, ok bool) {
	n := zzverif.Len(tag+".len", lens...)
	raw = zzverif.Blob(tag, n)
	s = hex.EncodeToString(raw)
	switch zzverif.Len(tag+".form", 0, 1, 2, 3) {
	case 3:
		return "0x" + s, raw, false // prefixed: not a hex string for encoding/hex (and 2 characters longer)
	case 1:
		s += "a" // odd number of hex digits
		return s, raw, false
	case 2:
		s += "zz" // not hex
		return s, raw, false
	}
	return s, raw, true
}

func verifBE(v uint64, n int) []byte {
	out := make([]byte, n)
	for i := n - 1; i >= 0; i-- {
		out[i] = byte(v)
		v >>= 8
	}
	return out
}

// runs one governance request through the admin service; returns the constructed VAA (nil if rejected)
func verifInject(msg *nodev1.GovernanceMessage, setIndex, ts uint32) (*vaa.VAA, error) {
	injectC := make(chan *vaa.VAA, 4)
	s := &nodePrivilegedService{injectC: injectC, logger: zap.NewNop(), governanceChainId: verifGovChain, governanceEmitterAddress: verifGovEmitter}
	req := &nodev1.InjectGovernanceVAARequest{CurrentSetIndex: setIndex, Timestamp: ts, Messages: []*nodev1.GovernanceMessage{msg}}
	var resp *nodev1.InjectGovernanceVAAResponse
	var err error
	zzverif.NoPanic(func() { resp, err = s.InjectGovernanceVAA(context.Background(), req) })
	if err != nil {
		zzverif.Assert(len(injectC) == 0, "rejected-request-injects-nothing")
		return nil, err
	}
	zzverif.Assert(len(injectC) == 1 && resp != nil && len(resp.Digests) == 1, "one-vaa-per-message")
	v := <-injectC
	d := v.SigningMsg()
	zzverif.Assert(bytes.Equal(resp.Digests[0], d[:]), "reported-digest-is-the-vaa-digest")
	return v, nil
}

// common envelope + module/action + size obligations; returns false if the VAA cannot be examined further
func verifGovCommon(v *vaa.VAA, msg *nodev1.GovernanceMessage, setIndex, ts uint32, p verifGovParser, lenField uint64, what string) bool {
	zzverif.Assert(v.EmitterChain == verifGovChain && v.EmitterAddress == verifGovEmitter, what+":governance-emitter")
	zzverif.Assert(uint32(v.TargetChain) == msg.TargetChainId, what+":target-chain-exact")
	zzverif.Assert(v.Sequence == msg.Sequence && v.Nonce == msg.Nonce && v.GuardianSetIndex == setIndex && v.Timestamp.Unix() == int64(ts) && len(v.Signatures) == 0, what+":envelope-fields")
	pl := v.Payload
	zzverif.Assert(len(pl) >= 33, what+":payload-has-module-and-action")
	if len(pl) < 33 {
		return false
	}
	mod, _ := hex.DecodeString(p.ModuleHex)
	want := append(make([]byte, 32-len(mod)), mod...)
	zzverif.Assert(bytes.Equal(pl[:32], want), what+":module-left-padded-to-32-bytes")
	zzverif.Assert(int(pl[32]) == p.Action, what+":action-id")
	size := uint64(p.SizeBase) + lenField*uint64(p.SizeLenFactor)
	zzverif.Assert(uint64(len(pl)) == size, what+":total-length-as-the-contract-asserts")
	return uint64(len(pl)) == size
}

func verifField(p verifGovParser, name string) (int, int) {
	for _, f := range p.Fields {
		if f.Name == name {
			return f.From, f.To
		}
	}
	zzverif.Assert(false, "contract-field-"+name+"-extracted")
	return 0, 0
}

func verifTarget() uint32 {
	if zzverif.Len("target.big", 0, 1) == 1 {
		return 65536 + uint32(zzverif.U16("target.hi"))
	}
	return uint32(zzverif.U16("target"))
}

// C15: every governance request kind either is rejected or becomes exactly the VAA the contracts parse.
func VerifC15_Requests() {
	kind := zzverif.Len("kind", 0, 1, 2, 3, 4, 5, 6, 7, 8, 9)
	msg := &nodev1.GovernanceMessage{Sequence: zzverif.U64("seq"), Nonce: zzverif.U32("nonce"), TargetChainId: verifTarget()}
	setIndex, ts := zzverif.U32("setIndex"), zzverif.U32("ts")
	P := verifGovParsers
	switch kind {
	case 0: // UpdateMessageFee
		s, raw, ok := verifHexField("fee", 0, 31, 32, 33)
		msg.Payload = &nodev1.GovernanceMessage_UpdateMessageFee{UpdateMessageFee: &nodev1.UpdateMessageFee{NewMessageFee: s}}
		v, err := verifInject(msg, setIndex, ts)
		if err != nil {
			zzverif.Reach("rejected")
			zzverif.Assert(!(ok && len(raw) == 32 && msg.TargetChainId <= 65535), "valid-request-accepted")
			return
		}
		zzverif.Reach("accepted")
		if verifGovCommon(v, msg, setIndex, ts, P["NewMessageFee"], 0, "fee") {
			a, b := verifField(P["NewMessageFee"], "fee")
			zzverif.Assert(ok && bytes.Equal(v.Payload[a:b], raw), "fee:value-at-contract-offset")
		}
	case 1: // TransferFee
		as, araw, aok := verifHexField("amount", 31, 32, 33)
		rs, rraw, rok := verifHexField("recipient", 31, 32, 33)
		msg.Payload = &nodev1.GovernanceMessage_TransferFee{TransferFee: &nodev1.TransferFee{Amount: as, Recipient: rs}}
		v, err := verifInject(msg, setIndex, ts)
		if err != nil {
			zzverif.Reach("rejected")
			zzverif.Assert(!(aok && rok && len(araw) == 32 && len(rraw) == 32 && msg.TargetChainId <= 65535), "valid-request-accepted")
			return
		}
		zzverif.Reach("accepted")
		if verifGovCommon(v, msg, setIndex, ts, P["TransferFee"], 0, "transfer") {
			a, b := verifField(P["TransferFee"], "amount")
			c, d := verifField(P["TransferFee"], "recipient")
			zzverif.Assert(aok && rok && bytes.Equal(v.Payload[a:b], araw) && bytes.Equal(v.Payload[c:d], rraw), "transfer:values-at-contract-offsets")
		}
	case 2: // GuardianSetUpgrade
		n := zzverif.Len("guardians", 0, 1, 2, 3, 19, 20)
		gs := make([]*nodev1.GuardianSetUpgrade_Guardian, n)
		raws := make([][]byte, n)
		for i := range gs {
			raws[i] = append([]byte{byte(i + 1)}, zzverif.Blob("gkey", 19)...)
			gs[i] = &nodev1.GuardianSetUpgrade_Guardian{Pubkey: "0x" + hex.EncodeToString(raws[i]), Name: "g"}
		}
		if n > 0 && zzverif.Len("badkey", 0, 1) == 1 {
			gs[n-1].Pubkey = "0x1234"
		}
		msg.Payload = &nodev1.GovernanceMessage_GuardianSet{GuardianSet: &nodev1.GuardianSetUpgrade{Guardians: gs}}
		v, err := verifInject(msg, setIndex, ts)
		if err != nil {
			zzverif.Reach("rejected")
			zzverif.Assert(!(n >= 1 && n <= 19 && !strings.HasSuffix(gs[n-1].Pubkey, "x1234") && msg.TargetChainId <= 65535), "valid-request-accepted")
			return
		}
		zzverif.Reach("accepted")
		zzverif.Assert(n >= 1 && n <= 19, "guardian-count-within-contract-range")
		if verifGovCommon(v, msg, setIndex, ts, P["NewGuardianSet"], uint64(n), "guardians") {
			a, b := verifField(P["NewGuardianSet"], "newGuardianSetIndex")
			zzverif.Assert(bytes.Equal(v.Payload[a:b], verifBE(uint64(setIndex+1), b-a)), "guardians:new-index-is-current-plus-one")
			c, d := verifField(P["NewGuardianSet"], "newGuardianSetSize")
			zzverif.Assert(bytes.Equal(v.Payload[c:d], verifBE(uint64(n), d-c)), "guardians:count")
			for i := range raws {
				zzverif.Assert(bytes.Equal(v.Payload[d+20*i:d+20*i+20], raws[i]), "guardians:key-at-contract-offset")
			}
		}
	case 3, 4: // contract upgrades: free-form payload after module and action
		s, raw, ok := verifHexField("code", 0, 1, 40)
		var parser verifGovParser
		module := "TokenBridge"
		if kind == 3 {
			msg.Payload = &nodev1.GovernanceMessage_ContractUpgrade{ContractUpgrade: &nodev1.ContractUpgrade{Payload: s}}
			parser = verifGovParser{ModuleHex: P["NewMessageFee"].ModuleHex, Action: verifCoreUpgradeAction, SizeBase: 33 + len(raw)}
		} else {
			module = []string{"TokenBridge", "", "Core", verifM32, verifM33}[zzverif.Len("module", 0, 1, 2, 3, 4)]
			msg.Payload = &nodev1.GovernanceMessage_BridgeContractUpgrade{BridgeContractUpgrade: &nodev1.BridgeUpgradeContract{Module: module, Payload: s}}
			parser = verifGovParser{ModuleHex: hex.EncodeToString([]byte(module)), Action: verifTBUpgradeAction, SizeBase: 33 + len(raw)}
		}
		v, err := verifInject(msg, setIndex, ts)
		if err != nil {
			zzverif.Reach("rejected")
			zzverif.Assert(!(ok && len(module) <= 32 && msg.TargetChainId <= 65535), "valid-request-accepted")
			return
		}
		zzverif.Reach("accepted")
		zzverif.Assert(len(module) <= 32, "module-name-fits-32-bytes")
		if len(module) <= 32 && verifGovCommon(v, msg, setIndex, ts, parser, 0, "upgrade") {
			zzverif.Assert(ok && bytes.Equal(v.Payload[33:], raw), "upgrade:code-follows-action")
		}
	case 5: // BridgeRegisterChain
		s, raw, ok := verifHexField("emitter", 31, 32, 33)
		module := []string{"TokenBridge", "", verifM32, verifM33}[zzverif.Len("module", 0, 1, 2, 3)]
		chain := verifChainArg("chain")
		msg.Payload = &nodev1.GovernanceMessage_BridgeRegisterChain{BridgeRegisterChain: &nodev1.BridgeRegisterChain{Module: module, ChainId: chain, EmitterAddress: s}}
		v, err := verifInject(msg, setIndex, ts)
		if err != nil {
			zzverif.Reach("rejected")
			zzverif.Assert(!(ok && len(raw) == 32 && len(module) <= 32 && chain <= 65535 && msg.TargetChainId <= 65535), "valid-request-accepted")
			return
		}
		zzverif.Reach("accepted")
		zzverif.Assert(len(module) <= 32, "module-name-fits-32-bytes")
		pr := P["TB_RegisterChain"]
		pr.ModuleHex = hex.EncodeToString([]byte(module))
		if len(module) <= 32 && verifGovCommon(v, msg, setIndex, ts, pr, 0, "register") {
			a, b := verifField(pr, "remoteChainId")
			zzverif.Assert(chain <= 65535 && bytes.Equal(v.Payload[a:b], verifBE(uint64(chain), b-a)), "register:chain-id-without-truncation")
			c, d := verifField(pr, "remoteTokenBridgeId")
			zzverif.Assert(ok && bytes.Equal(v.Payload[c:d], raw), "register:emitter-at-contract-offset")
		}
	case 6: // DestroyUnexecutedSequenceContracts
		n := zzverif.Len("sequences", 0, 1, 2, 65535, 65536)
		seqs := make([]uint64, n)
		if n <= 2 {
			for i := range seqs {
				seqs[i] = zzverif.U64("dseq")
			}
		} else {
			seqs[0], seqs[n-1] = zzverif.U64("dseq"), zzverif.U64("dseq")
		}
		chain := verifChainArg("chain")
		msg.Payload = &nodev1.GovernanceMessage_DestroyUnexecutedSequenceContracts{DestroyUnexecutedSequenceContracts: &nodev1.TokenBridgeDestroyUnexecutedSequenceContracts{EmitterChain: chain, Sequences: seqs}}
		v, err := verifInject(msg, setIndex, ts)
		if err != nil {
			zzverif.Reach("rejected")
			zzverif.Assert(!(n >= 1 && n <= 65535 && chain <= 65535 && msg.TargetChainId <= 65535), "valid-request-accepted")
			return
		}
		zzverif.Reach("accepted")
		pr := P["TB_DestroyUnexecutedSequences"]
		if verifGovCommon(v, msg, setIndex, ts, pr, uint64(n), "destroy") {
			a, b := verifField(pr, "remoteChainIdBytes")
			zzverif.Assert(chain <= 65535 && bytes.Equal(v.Payload[a:b], verifBE(uint64(chain), b-a)), "destroy:chain-id-without-truncation")
			c, d := verifField(pr, "length")
			zzverif.Assert(n <= 65535 && bytes.Equal(v.Payload[c:d], verifBE(uint64(n), d-c)), "destroy:count-without-truncation")
			if n > 0 {
				zzverif.Assert(bytes.Equal(v.Payload[d:d+8], verifBE(seqs[0], 8)) && bytes.Equal(v.Payload[d+8*(n-1):d+8*n], verifBE(seqs[n-1], 8)), "destroy:sequences-at-contract-offsets")
			}
		}
	case 7: // UpdateMinimalConsistencyLevel
		cl := uint32(zzverif.U8("cl"))
		if zzverif.Len("cl.big", 0, 1) == 1 {
			cl = 256 + uint32(zzverif.U16("cl.hi"))
		}
		msg.Payload = &nodev1.GovernanceMessage_UpdateMinimalConsistencyLevel{UpdateMinimalConsistencyLevel: &nodev1.TokenBridgeUpdateMinimalConsistencyLevel{NewConsistencyLevel: cl}}
		v, err := verifInject(msg, setIndex, ts)
		if err != nil {
			zzverif.Reach("rejected")
			zzverif.Assert(!(cl <= 255 && msg.TargetChainId <= 65535), "valid-request-accepted")
			return
		}
		zzverif.Reach("accepted")
		pr := P["TB_UpdateMinimalConsistencyLevel"]
		if verifGovCommon(v, msg, setIndex, ts, pr, 0, "mincl") {
			a, b := verifField(pr, "consistencyLevel")
			zzverif.Assert(cl <= 255 && bytes.Equal(v.Payload[a:b], verifBE(uint64(cl), b-a)), "mincl:level-without-truncation")
		}
	case 8: // UpdateRefundAddress
		s, raw, ok := verifHexField("refund", 0, 1, 33, 65535, 65536)
		msg.Payload = &nodev1.GovernanceMessage_UpdateRefundAddress{UpdateRefundAddress: &nodev1.TokenBridgeUpdateRefundAddress{NewRefundAddress: s}}
		v, err := verifInject(msg, setIndex, ts)
		if err != nil {
			zzverif.Reach("rejected")
			zzverif.Assert(!(ok && len(raw) <= 65535 && msg.TargetChainId <= 65535), "valid-request-accepted")
			return
		}
		zzverif.Reach("accepted")
		pr := P["TB_UpdateRefundAddress"]
		if verifGovCommon(v, msg, setIndex, ts, pr, uint64(len(raw)), "refund") {
			a, b := verifField(pr, "addressSize")
			zzverif.Assert(len(raw) <= 65535 && bytes.Equal(v.Payload[a:b], verifBE(uint64(len(raw)), b-a)), "refund:length-without-truncation")
			zzverif.Assert(ok && bytes.Equal(v.Payload[b:], raw), "refund:address-follows-length")
		}
	default: // a message without payload must be rejected, not crash the node
		_, err := verifInject(msg, setIndex, ts)
		zzverif.Assert(err != nil, "message-without-payload-rejected")
		zzverif.Reach("rejected")
	}
}

func verifChainArg(tag string) uint32 {
	if zzverif.Len(tag+".big", 0, 1) == 1 {
		return 65536 + uint32(zzverif.U16(tag+".hi"))
	}
	return uint32(zzverif.U16(tag))
}

// C15: construction is a pure function of the request: the same request twice gives the same digest.
func VerifC15_Pure() {
	mk := func() *vaa.VAA {
		msg := &nodev1.GovernanceMessage{Sequence: 7, Nonce: 9, TargetChainId: 255,
			Payload: &nodev1.GovernanceMessage_UpdateMinimalConsistencyLevel{UpdateMinimalConsistencyLevel: &nodev1.TokenBridgeUpdateMinimalConsistencyLevel{NewConsistencyLevel: 10}}}
		v, _ := verifInject(msg, 3, 1700000000)
		return v
	}
	a, b := mk(), mk()
	zzverif.Assert(a != nil && b != nil && a.SigningMsg() == b.SigningMsg(), "same-request-same-digest")
	zzverif.Reach("end")
}

// C15: a constructed VAA is a value: building the NEXT governance VAA (of any token-bridge kind) leaves the previous
// one - payload and digest - exactly as it was reported to the operator.
func VerifC15_Sequence() {
	mkMsg := func(tag string) *nodev1.GovernanceMessage {
		msg := &nodev1.GovernanceMessage{Sequence: zzverif.U64(tag + ".seq"), Nonce: zzverif.U32(tag + ".nonce"), TargetChainId: uint32(zzverif.U16(tag + ".target"))}
		switch zzverif.Len(tag+".kind", 0, 6, 7, 8) {
		case 0:
			msg.Payload = &nodev1.GovernanceMessage_UpdateMessageFee{UpdateMessageFee: &nodev1.UpdateMessageFee{NewMessageFee: hex.EncodeToString(zzverif.Blob(tag+".fee", 32))}}
		case 6:
			n := zzverif.Len(tag+".nseq", 1, 2)
			seqs := make([]uint64, n)
			for i := range seqs {
				seqs[i] = zzverif.U64(tag + ".dseq")
			}
			msg.Payload = &nodev1.GovernanceMessage_DestroyUnexecutedSequenceContracts{DestroyUnexecutedSequenceContracts: &nodev1.TokenBridgeDestroyUnexecutedSequenceContracts{EmitterChain: uint32(zzverif.U16(tag + ".chain")), Sequences: seqs}}
		case 7:
			msg.Payload = &nodev1.GovernanceMessage_UpdateMinimalConsistencyLevel{UpdateMinimalConsistencyLevel: &nodev1.TokenBridgeUpdateMinimalConsistencyLevel{NewConsistencyLevel: uint32(zzverif.U8(tag + ".cl"))}}
		default:
			msg.Payload = &nodev1.GovernanceMessage_UpdateRefundAddress{UpdateRefundAddress: &nodev1.TokenBridgeUpdateRefundAddress{NewRefundAddress: hex.EncodeToString(zzverif.Blob(tag+".refund", 33))}}
		}
		return msg
	}
	a := mkMsg("a")
	v1, err := verifInject(a, 1, 1700000000)
	zzverif.Assert(err == nil && v1 != nil, "first-accepted")
	if v1 == nil {
		return
	}
	d1 := v1.SigningMsg()
	p1 := append([]byte{}, v1.Payload...)
	b := mkMsg("b")
	v2, err2 := verifInject(b, 1, 1700000000)
	zzverif.Assert(err2 == nil && v2 != nil, "second-accepted")
	zzverif.Assert(bytes.Equal(v1.Payload, p1), "earlier-vaa-payload-unchanged-by-later-request")
	zzverif.Assert(v1.SigningMsg() == d1, "earlier-vaa-digest-unchanged-by-later-request")
	zzverif.Reach("end")
}
