"""Pattern-based extractors for the contract-side layouts and formulas (DESIGN §6 C04/C07/C15).

They read the contract *text* of the current /repo tree on every run and fail closed: a pattern that is not found
raises ExtractError, which the driver reports as INCONCLUSIVE (never as a pass).
"""
import re, os


class ExtractError(Exception):
    pass


def _func_body(src, header_re):
    m = re.search(header_re, src)
    if not m:
        raise ExtractError("function header not found: " + header_re)
    i = src.index("{", m.end() - 1) if src[m.end() - 1] != "{" else m.end() - 1
    depth, j = 0, i
    while j < len(src):
        if src[j] == "{":
            depth += 1
        elif src[j] == "}":
            depth -= 1
            if depth == 0:
                return src[i + 1:j]
        j += 1
    raise ExtractError("unbalanced braces after " + header_re)


def _strip_comments(s):
    s = re.sub(r"/\*.*?\*/", "", s, flags=re.S)
    return re.sub(r"//[^\n]*", "", s)


# ---------------- Solidity: Messages.sol ----------------

SOL_WIDTH = {"toUint8": 1, "toUint16": 2, "toUint32": 4, "toUint64": 8, "toBytes32": 32}


def sol_parse_vm(repo):
    src = _strip_comments(open(os.path.join(repo, "ethereum/contracts/Messages.sol")).read())
    body = _func_body(src, r"function\s+parseVM\s*\([^)]*\)[^{]*\{")
    stmts = [s.strip() for s in re.split(r";|\{|\}", body)]
    # re-scan keeping braces to know the loop extent
    toks = re.findall(r"\s*for\s*\([^)]*\)\s*\{|\}|[^;{}]+;", body)
    off = 0          # offset in the current region
    region = "header"
    header, sig, bodyf = [], [], []
    sig_start = sig_stride = None
    loop_entry = None
    body_start_marked = False
    double_hash = False
    payload_off = None
    for t in toks:
        t = t.strip()
        if t.startswith("for"):
            if region != "header":
                raise ExtractError("unexpected loop in region " + region)
            region, loop_entry, sig_start, off = "sig", off, off, 0
            continue
        if t == "}":
            if region == "sig":
                sig_stride, region, off = off, "after-sig", 0
            continue
        t = t.rstrip(";").strip()
        m = re.match(r"index\s*\+=\s*(\d+)$", t)
        if m:
            off += int(m.group(1))
            continue
        m = re.match(r"(?:uint\d*\s+)?([\w\.\[\]]+)\s*=\s*encodedVM\.(toUint8|toUint16|toUint32|toUint64|toBytes32)\(index\)(\s*\+\s*27)?$", t)
        if m:
            name = m.group(1).split(".")[-1]
            fld = (name, off, SOL_WIDTH[m.group(2)])
            {"header": header, "sig": sig, "after-sig": bodyf, "body": bodyf}[region].append(fld)
            continue
        if re.match(r"bytes\s+memory\s+body\s*=\s*encodedVM\.slice\(index,\s*encodedVM\.length\s*-\s*index\)$", t):
            if region != "after-sig" or off != 0:
                raise ExtractError("body slice not directly after the signature loop")
            region, body_start_marked = "body", True
            continue
        if re.match(r"vm\.hash\s*=\s*keccak256\(abi\.encodePacked\(keccak256\(body\)\)\)$", t):
            double_hash = True
            continue
        if re.match(r"vm\.payload\s*=\s*encodedVM\.slice\(index,\s*encodedVM\.length\s*-\s*index\)$", t):
            payload_off = off
            continue
        if re.match(r"uint\s+index\s*=\s*0$", t) or t.startswith("require(") or re.match(r"vm\.signatures\s*=\s*new", t) or t == "":
            continue
        raise ExtractError("parseVM: unrecognised statement: " + t)
    if not (body_start_marked and double_hash and payload_off is not None and sig_stride):
        raise ExtractError("parseVM: incomplete layout")
    return {"header": header, "sig_start": sig_start, "sig_stride": sig_stride, "sig": sig, "body": bodyf,
            "payload_off": payload_off, "double_hash": double_hash}


def sol_quorum_expr(repo):
    src = _strip_comments(open(os.path.join(repo, "ethereum/contracts/Messages.sol")).read())
    body = _func_body(src, r"function\s+quorum\s*\(\s*uint\s+(\w+)\s*\)[^{]*\{")
    var = re.search(r"function\s+quorum\s*\(\s*uint\s+(\w+)\s*\)", src).group(1)
    m = re.search(r"return\s+([^;]+);", body)
    if not m:
        raise ExtractError("quorum(): return expression not found")
    return _arith(m.group(1), var)


def sol_quorum_use(repo):
    """the condition under which verifyVM answers (false, "no quorum"), as a Go boolean expression over s (number of
    signatures) and n (number of guardian keys); quorum(...) becomes verifSolQuorum(...)"""
    src = _strip_comments(open(os.path.join(repo, "ethereum/contracts/Messages.sol")).read())
    body = _func_body(src, r"function\s+verifyVM\s*\([^)]*\)[^{]*\{")
    ms = re.findall(r'if\s*\(([^{};]+)\)\s*\{\s*return\s*\(\s*false\s*,\s*"no quorum"\s*\)', body)
    if len(ms) != 1:
        raise ExtractError('verifyVM: expected exactly one `if (...) { return (false, "no quorum")`, found %d' % len(ms))
    e = ms[0].replace("vm.signatures.length", "s").replace("guardianSet.keys.length", "n")
    e = re.sub(r"\bquorum\s*\(", "verifSolQuorum(", e)
    if not re.fullmatch(r"(?:verifSolQuorum|[sn0-9+\-*/()<>=!&| \t\n])+", e):
        raise ExtractError("verifyVM: unsupported quorum condition: " + ms[0])
    return " ".join(e.split())


def ral_quorum_use(repo):
    """the condition parseAndVerifyVAA asserts about the signature count, over s and n; quorumSize becomes verifRalQuorum(n)"""
    src = _strip_comments(open(os.path.join(repo, "alephium/contracts/governance.ral")).read())
    body = _func_body(src, r"pub\s+fn\s+parseAndVerifyVAA\s*\([^)]*\)[^{]*\{")
    ms = re.findall(r"assert!\(([^,\n]+),\s*ErrorCodes\.InvalidSignatureSize\)", body)
    if len(ms) != 1:
        raise ExtractError("parseAndVerifyVAA: expected exactly one assert!(..., ErrorCodes.InvalidSignatureSize), found %d" % len(ms))
    if not re.search(r"let\s+signatureSize\s*=\s*u256From1Byte!\(byteVecSlice!\(data,\s*5,\s*6\)\)", body) or not re.search(r"let\s+guardianSize\s*=\s*u256From1Byte!\(byteVecSlice!\(guardians,\s*0,\s*1\)\)", body):
        raise ExtractError("parseAndVerifyVAA: signatureSize / guardianSize definitions not recognised")
    e = re.sub(r"\bquorumSize\b", "verifRalQuorum(n)", ms[0])
    e = re.sub(r"\bsignatureSize\b", "s", e)
    e = re.sub(r"\bguardianSize\b", "n", e)
    if not re.fullmatch(r"(?:verifRalQuorum\(n\)|[sn0-9+\-*/()<>=!&| \t])+", e):
        raise ExtractError("parseAndVerifyVAA: unsupported signature-count condition: " + ms[0])
    return " ".join(e.split())


def _arith(expr, var):
    e = re.sub(r"\b%s\b" % re.escape(var), "n", expr.strip())
    if not re.fullmatch(r"[n0-9+\-*/() \t]+", e):
        raise ExtractError("unsupported arithmetic expression: " + expr)
    return e


# ---------------- Ralph: governance.ral ----------------

def ral_quorum_expr(repo):
    src = _strip_comments(open(os.path.join(repo, "alephium/contracts/governance.ral")).read())
    m = re.search(r"let\s+quorumSize\s*=\s*([^\n]+)", src)
    if not m:
        raise ExtractError("governance.ral: quorumSize not found")
    return _arith(m.group(1), "guardianSize")


def ral_parse_vaa(repo):
    src = _strip_comments(open(os.path.join(repo, "alephium/contracts/governance.ral")).read())
    body = _func_body(src, r"pub\s+fn\s+parseAndVerifyVAA\s*\([^)]*\)[^{]*\{")
    out = {"header": [], "sig": [], "body": []}

    def slc(name, target, a, b):
        return (name, int(a), int(b) - int(a))

    m = re.search(r"byteVecSlice!\(data,\s*(\d+),\s*(\d+)\)\s*==\s*Version", body)
    if not m:
        raise ExtractError("ral: version check not found")
    out["header"].append(slc("version", "data", m.group(1), m.group(2)))
    for name, pat in [("guardianSetIndex", r"let\s+guardianSetIndex\s*=\s*u256From4Byte!\(byteVecSlice!\(data,\s*(\d+),\s*(\d+)\)\)"),
                      ("signersLen", r"let\s+signatureSize\s*=\s*u256From1Byte!\(byteVecSlice!\(data,\s*(\d+),\s*(\d+)\)\)")]:
        m = re.search(pat, body)
        if not m:
            raise ExtractError("ral: %s not found" % name)
        out["header"].append(slc(name, "data", m.group(1), m.group(2)))
    m = re.search(r"let\s+body\s*=\s*byteVecSlice!\(data,\s*(\d+)\s*\+\s*signatureSize\s*\*\s*(\d+),\s*size!\(data\)\)", body)
    if not m:
        raise ExtractError("ral: body slice not found")
    out["sig_start"], out["sig_stride"] = int(m.group(1)), int(m.group(2))
    if not re.search(r"let\s+hash\s*=\s*keccak256!\(keccak256!\(body\)\)", body):
        raise ExtractError("ral: double hash of body not found")
    out["double_hash"] = True
    m = re.search(r"let\s+mut\s+offset\s*=\s*(\d+)", body)
    if not m or int(m.group(1)) != out["sig_start"]:
        raise ExtractError("ral: signature loop does not start at the header end")
    m = re.search(r"offset\s*=\s*offset\s*\+\s*(\d+)", body)
    if not m or int(m.group(1)) != out["sig_stride"]:
        raise ExtractError("ral: signature loop stride differs from the body offset stride")
    m = re.search(r"let\s+guardianIndex\s*=\s*u256From1Byte!\(byteVecSlice!\(data,\s*offset,\s*offset\s*\+\s*(\d+)\)\)", body)
    if not m:
        raise ExtractError("ral: guardianIndex slice not found")
    out["sig"].append(("guardianIndex", 0, int(m.group(1))))
    m = re.search(r"let\s+signature\s*=\s*byteVecSlice!\(data,\s*offset\s*\+\s*(\d+),\s*offset\s*\+\s*(\d+)\)", body)
    if not m:
        raise ExtractError("ral: signature slice not found")
    out["sig"].append(("signature", int(m.group(1)), int(m.group(2)) - int(m.group(1))))
    for name, conv, var in [("emitterChainId", "u256From2Byte!", "emitterChainId"), ("targetChainId", "u256From2Byte!", "targetChainId"),
                            ("emitterAddress", "", "emitterAddress"), ("sequence", "u256From8Byte!", "sequence")]:
        pat = r"let\s+%s\s*=\s*%s\(?byteVecSlice!\(body,\s*(\d+),\s*(\d+)\)\)?" % (var, re.escape(conv))
        m = re.search(pat, body)
        if not m:
            raise ExtractError("ral: body field %s not found" % name)
        out["body"].append(slc(name, "body", m.group(1), m.group(2)))
    m = re.search(r"let\s+payload\s*=\s*byteVecSlice!\(body,\s*(\d+),\s*size!\(body\)\)", body)
    if not m:
        raise ExtractError("ral: payload slice not found")
    out["payload_off"] = int(m.group(1))
    return out


def ral_attest_layout(repo):
    src = _strip_comments(open(os.path.join(repo, "alephium/contracts/token_bridge/token_bridge.ral")).read())
    body = _func_body(src, r"pub\s+fn\s+attestToken\s*\([^)]*\)[^{]*\{")
    m = re.search(r"let\s+payload\s*=\s*((?:[^\n]+\+\+\s*\n?\s*)*[^\n]+)", body)
    if not m:
        raise ExtractError("attestToken: payload concatenation not found")
    parts = [x.strip() for x in m.group(1).split("++")]
    off, out = 0, {}
    for part in parts:
        mm = re.fullmatch(r"u256To(\d+)Byte!\((\w+)\)", part)
        if mm:
            n, name = int(mm.group(1)), mm.group(2)
        elif re.fullmatch(r"PayloadId\.\w+", part):
            n, name = 1, "payloadId"
        elif re.fullmatch(r"\w+", part):
            ms = re.search(r"assert!\(size!\(%s\)\s*==\s*(\d+)" % re.escape(part), body)
            if not ms:
                raise ExtractError("attestToken: no size assertion for " + part)
            n, name = int(ms.group(1)), part
        else:
            raise ExtractError("attestToken: unrecognised payload part: " + part)
        out[name] = (off, off + n)
        off += n
    for need in ("localTokenId", "decimals", "symbol", "name"):
        if need not in out:
            raise ExtractError("attestToken: part %s missing" % need)
    out["_total"] = off
    return out


def ral_governance_parsers(repo):
    """per governance action: module constant, action id, fixed payload slices, size expression (const or base + lenfield*k)"""
    out = {}
    specs = [("alephium/contracts/governance.ral", "CoreModule", [("submitNewGuardianSet", "NewGuardianSet"), ("submitSetMessageFee", "NewMessageFee"), ("submitTransferFees", "TransferFee")]),
             ("alephium/contracts/token_bridge/token_bridge_governance.ral", "TokenBridgeModule",
              [("parseAndVerifyRegisterChain", "RegisterChain"), ("destroyUnexecutedSequenceContracts", "DestroyUnexecutedSequences"),
               ("updateMinimalConsistencyLevel", "UpdateMinimalConsistencyLevel"), ("updateRefundAddress", "UpdateRefundAddress")])]
    for path, modname, fns in specs:
        src = _strip_comments(open(os.path.join(repo, path)).read())
        m = re.search(r"const\s+%s\s*=\s*0x([0-9a-fA-F]+)" % modname, src)
        if not m:
            raise ExtractError("%s: module constant %s not found" % (path, modname))
        module = m.group(1).lower()
        enum = re.search(r"enum\s+ActionId\s*\{([^}]*)\}", src)
        if not enum:
            raise ExtractError("%s: enum ActionId not found" % path)
        actions = dict(re.findall(r"(\w+)\s*=\s*#([0-9a-fA-F]{2})", enum.group(1)))
        for fn, action in fns:
            body = _func_body(src, r"fn\s+%s\s*\([^)]*\)[^{]*\{" % fn)
            if ("ActionId." + action) not in body:
                raise ExtractError("%s.%s: does not verify ActionId.%s" % (path, fn, action))
            if action not in actions:
                raise ExtractError("%s: ActionId.%s has no value" % (path, action))
            fields = []
            for fm in re.finditer(r"let\s+(\w+)\s*=\s*(?:\w+!\()?byteVecSlice!\(payload,\s*(\d+),\s*(\d+|payloadSize)\)", body):
                if fm.group(3) == "payloadSize":
                    fields.append((fm.group(1), int(fm.group(2)), -1))
                else:
                    fields.append((fm.group(1), int(fm.group(2)), int(fm.group(3))))
            for fm in re.finditer(r"(?<!let\s)(\w+(?:\[\d+\])?)\s*=\s*byteVecSlice!\(payload,\s*(\d+),\s*payloadSize\)", body):
                fields.append((re.sub(r"\W", "_", fm.group(1)), int(fm.group(2)), -1))
            size = None
            sm = re.search(r"assert!\(size!\(payload\)\s*==\s*(\d+)\s*,", body)
            if sm:
                size = (int(sm.group(1)), None, 0)
            else:
                if not re.search(r"assert!\(size!\(payload\)\s*==\s*payloadSize\s*,", body):
                    raise ExtractError("%s.%s: no payload size assertion" % (path, fn))
                pm = re.search(r"let\s+payloadSize\s*=\s*(\d+)\s*\+\s*(\w+)(?:\s*\*\s*(\d+))?", body)
                if not pm:
                    raise ExtractError("%s.%s: payloadSize expression not understood" % (path, fn))
                size = (int(pm.group(1)), pm.group(2), int(pm.group(3) or 1))
            out[action if modname == "CoreModule" else "TB_" + action] = {"module": module, "action": int(actions[action], 16), "fields": fields, "size": size}
    # the generic check: module at payload[0:32], action at payload[32:33]
    gsrc = _strip_comments(open(os.path.join(repo, "alephium/contracts/governance.ral")).read())
    gb = _func_body(gsrc, r"pub\s+fn\s+parseAndVerifyGovernanceVAAGeneric\s*\([^)]*\)[^{]*\{")
    if not re.search(r"u256From32Byte!\(byteVecSlice!\(payload,\s*0,\s*32\)\)\s*==\s*coreModule", gb) or not re.search(r"byteVecSlice!\(payload,\s*32,\s*33\)\s*==\s*action", gb):
        raise ExtractError("parseAndVerifyGovernanceVAAGeneric: module/action slices not found")
    if not (re.search(r"emitterChainId\s*==\s*governanceChainId", gb) and re.search(r"emitterAddress\s*==\s*governanceEmitterAddress", gb)):
        raise ExtractError("parseAndVerifyGovernanceVAAGeneric: emitter checks not found")
    return out


def go_layout(name, lay):
    def fl(fs):
        return "[]verifField{" + ", ".join('{"%s", %d, %d}' % f for f in fs) + "}"
    return ("var %s = verifLayout{Header: %s, SigStart: %d, SigStride: %d, Sig: %s, Body: %s, PayloadOff: %d, DoubleHash: %s}\n"
            % (name, fl(lay["header"]), lay["sig_start"], lay["sig_stride"], fl(lay["sig"]), fl(lay["body"]), lay["payload_off"],
               "true" if lay["double_hash"] else "false"))


if __name__ == "__main__":
    import sys, json
    repo = sys.argv[1] if len(sys.argv) > 1 else "/repo"
    print(json.dumps(sol_parse_vm(repo), indent=1))
    print(json.dumps(ral_parse_vaa(repo), indent=1))
    print(sol_quorum_expr(repo), "|", ral_quorum_expr(repo))
