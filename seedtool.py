#!/usr/bin/env python3
"""Seeded-change bookkeeping.
  seedtool.py confirm <worktree> <outdir>       confirm a sub-agent's deliverable in its scratch worktree
  seedtool.py detect  <PROP> <patch.diff> [tier] apply to /repo, run ./check PROP, undo; prints the verdict
  seedtool.py keep    <outdir> <seed-id>         copy a confirmed deliverable to /verif/seeded/<seed-id>/
"""
import json, os, subprocess, sys, shutil, time

ENVS = "GOFLAGS=-mod=mod GOPROXY=off GOSUMDB=off GOTOOLCHAIN=local"


def sh(cmd, cwd=None, timeout=3000):
    r = subprocess.run(cmd, shell=True, cwd=cwd, capture_output=True, text=True, timeout=timeout)
    return r.returncode, r.stdout + r.stderr


def reset(wt):
    sh("git checkout -q -- . && git clean -fdq", cwd=wt)


def confirm(wt, out):
    meta = json.load(open(os.path.join(out, "meta.json")))
    patch = os.path.join(out, "patch.diff")
    files = meta.get("files_changed", [])
    mod = "explorer-backend" if any(f.startswith("explorer-backend") for f in files) else "node"
    res = {"meta": meta}
    reset(wt)
    if mod == "node":
        sh("/root/wt-tools/stripp2p/stripp2p " + wt)
    rc0, o0 = sh(meta["demo_cmd"], timeout=1200)
    res["demo_without_change_passes"] = rc0 == 0
    reset(wt)
    rc, o = sh("git apply " + patch, cwd=wt)
    if rc != 0:
        res["error"] = "patch does not apply: " + o[-300:]
        return res
    rcS, oS = sh("/root/wt-tools/suite.sh %s %s" % (wt, mod), timeout=3000)
    base_file = "/root/wt-tools/baseline_%s.txt" % mod.replace("/", "_")
    if not os.path.exists(base_file):
        res["error"] = "no baseline for " + mod
        return res
    base = open(base_file).read()
    res["suite_same_as_baseline"] = oS.strip() == base.strip()
    if not res["suite_same_as_baseline"]:
        res["suite_diff"] = [l for l in oS.splitlines() if l not in base.splitlines()][:10]
    if mod == "node":
        sh("/root/wt-tools/stripp2p/stripp2p " + wt)
    rc1, o1 = sh(meta["demo_cmd"], timeout=1200)
    res["demo_with_change_fails"] = rc1 != 0
    res["demo_tail_with_change"] = o1[-600:]
    reset(wt)
    res["confirmed"] = bool(res["demo_without_change_passes"] and res["suite_same_as_baseline"] and res["demo_with_change_fails"])
    return res


def detect(prop, patch, tier="quick"):
    rc, o = sh("git -C /repo status --porcelain")
    if o.strip():
        return {"error": "/repo not clean: " + o[:200]}
    rc, o = sh("git -C /repo apply " + patch)
    if rc != 0:
        return {"error": "patch does not apply to /repo: " + o[-300:]}
    t0 = time.time()
    try:
        rc, o = sh("./check %s --tier %s" % (prop, tier), cwd="/verif", timeout=7200)
    finally:
        sh("git -C /repo checkout -q -- . && git -C /repo clean -fdq")
    lines = [l for l in o.splitlines() if l.startswith(("VIOLATION", "  entry=", "INCONCLUSIVE", "KNOWN-FINDING", prop + " tier"))]
    return {"exit": rc, "detected": rc == 1 and any(l.startswith("VIOLATION") for l in lines), "wall_s": round(time.time() - t0, 1), "lines": lines[:12]}


def detect_wt(prop, wt, patch, tag, tier="quick"):
    """development sweep: apply in the scratch worktree and point the check at it (VERIF_REPO), /repo untouched"""
    reset(wt)
    rc, o = sh("git apply " + patch, cwd=wt)
    if rc != 0:
        return {"error": "patch does not apply: " + o[-300:]}
    t0 = time.time()
    try:
        rc, o = sh("VERIF_REPO=%s VERIF_WORK=/verif/.work/seed-%s VERIF_JOBS=6 ./check %s --tier %s" % (wt, tag, prop, tier), cwd="/verif", timeout=7200)
    finally:
        reset(wt)
    lines = [l for l in o.splitlines() if l.startswith(("VIOLATION", "  entry=", "INCONCLUSIVE", "KNOWN-FINDING", prop + " tier"))]
    return {"exit": rc, "detected": rc == 1 and any(l.startswith("VIOLATION") for l in lines), "wall_s": round(time.time() - t0, 1), "lines": lines[:12]}


if __name__ == "__main__":
    cmd = sys.argv[1]
    if cmd == "confirm":
        r = confirm(sys.argv[2], sys.argv[3])
        json.dump(r, open(os.path.join(sys.argv[3], "confirm.json"), "w"), indent=1)
        print(sys.argv[3], "confirmed=%s" % r.get("confirmed"), {k: v for k, v in r.items() if k not in ("meta", "demo_tail_with_change")})
    elif cmd == "detect":
        r = detect(sys.argv[2], sys.argv[3], sys.argv[4] if len(sys.argv) > 4 else "quick")
        print(json.dumps(r, indent=1))
    elif cmd == "detect-wt":
        r = detect_wt(sys.argv[2], sys.argv[3], sys.argv[4], sys.argv[5], sys.argv[6] if len(sys.argv) > 6 else "quick")
        print(sys.argv[5], json.dumps(r, indent=1))
    elif cmd == "keep":
        out, sid = sys.argv[2], sys.argv[3]
        dst = os.path.join("/verif/seeded", sid)
        os.makedirs(dst, exist_ok=True)
        for f in os.listdir(out):
            if f.endswith((".go", ".diff", ".ts", ".sol", ".ral")) and not f.startswith("foreign"):
                shutil.copy(os.path.join(out, f), dst)
        meta = json.load(open(os.path.join(out, "meta.json")))
        meta["id"] = sid
        meta["breaks_property"] = meta.get("property")
        meta["needs_to_manifest"] = meta.get("needs")
        c = json.load(open(os.path.join(out, "confirm.json")))
        meta["what_was_run_to_confirm"] = {
            "in": "scratch worktree of /repo HEAD (removed afterwards)",
            "steps": ["demo_cmd without the change -> passes: %s" % c.get("demo_without_change_passes"),
                      "git apply patch.diff; module test suite (go test ./... plus the five p2p-dependent packages through the stripped-Run overlay) package results identical to unpatched HEAD: %s" % c.get("suite_same_as_baseline"),
                      "demo_cmd with the change -> fails: %s" % c.get("demo_with_change_fails")],
            "confirmed": c.get("confirmed")}
        dl = os.path.join(out, "detect.log")
        if os.path.exists(dl):
            txt = open(dl).read()
            try:
                meta["check_result"] = json.loads(txt[txt.index("{"):])
            except Exception:
                meta["check_result"] = {"raw": txt[-500:]}
        json.dump(meta, open(os.path.join(dst, "meta.json"), "w"), indent=1)
        print("kept", dst)
