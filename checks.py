"""Per-property check specifications (entries, shards, bounds text). See DESIGN.md §6."""
import os

CHECKS = {}

CHECKS["C07"] = {
    "runs": [
        {"pkg": "./pkg/processor", "entry": "VerifC07_Quorum", "reach": ["end"]},
    ],
    "exhaustive": True,
    "bounds": {"n": "0..255 (symbolic; the property's whole domain)"},
    "outside": "nothing: n ranges over the wire format's one-byte guardian count",
    "assumptions": [],
}

def _ranges(name, lo, hi, step):
    return ["%s=%d..%d" % (name, a, min(a + step - 1, hi)) for a in range(lo, hi + 1, step)]

CHECKS["C05"] = {
    "runs": [
        {"pkg": "./pkg/vaa", "entry": "VerifC05_RoundTrip", "reach": ["end"],
         "shards": {"quick": ["nsig=0", "nsig=1", "nsig=2;plen=1..1001", "nsig=2;plen=1002..70000"],
                    "thorough": ["nsig=0", "nsig=1", "nsig=2", "nsig=3", "nsig=19", "nsig=255;plen=1..1001", "nsig=255;plen=1002..70000"]}},
        {"pkg": "./pkg/vaa", "entry": "VerifC05_Decode", "reach": ["accepted", "rejected"],
         "shards": {"quick": _ranges("L", 0, 59, 60) + _ranges("L", 60, 131, 9), "thorough": _ranges("L", 0, 59, 60) + _ranges("L", 60, 400, 12)}},
        {"pkg": "./pkg/vaa", "entry": "VerifC05_DecodeLong", "reach": ["accepted", "rejected"]},
    ],
    "bounds": {
        "quick": {"RoundTrip": "payload length in {1,2,3,100,999,1000,1001,2000,4096,4097,65535,65536,65537} plus c-1,c,c+1,2c for every integer constant c in [64,200000] of Unmarshal's SSA (derived per run); 0..2 signatures; every other field fully symbolic",
                  "Decode": "every byte string of length 0..131 (all bytes symbolic, signature-count byte symbolic: forks over every feasible count); plus lengths 1057,1058,2100,66000 and the constant-derived ones with <= 2 signatures",
                  "unwind": 3000},
        "thorough": {"RoundTrip": "same payload lengths; 0,1,2,3,19,255 signatures",
                     "Decode": "every byte string of length 0..400; long inputs as in quick", "unwind": 3000}},
    "outside": "byte strings longer than the listed ranges other than the constant-derived lengths; payload lengths not listed; timestamps >= 2^32 (not representable in the format)",
    "assumptions": ["encoding/binary.Read/Write modelled as big-endian bytes of the static fixed-size type (DESIGN 4.2); bytes.Reader/bytes.Buffer executed as real code",
                    "Keccak-256 as an uninterpreted function per input length (the digest assertion needs only congruence)"],
}

CHECKS["C06"] = {
    "runs": [
        {"pkg": "./pkg/vaa", "entry": "VerifC06_Verify", "reach": ["accepted", "rejected"],
         "shards": {"quick": ["n=0;k=0..5;dup=0", "n=1;k=0..3;dup=0", "n=2;k=0,1;dup=0,1", "n=2;k=2;dup=0", "n=2;k=2;dup=1", "n=2;k=3;dup=0;plen=1;sel=0,1", "n=2;k=3;dup=0;plen=1;sel=2,3",
                              "n=3;k=0,1;dup=0,1", "n=3;k=2;dup=0;plen=1;sel=0,1", "n=3;k=2;dup=0;plen=1;sel=2,3,4", "n=3;k=2;dup=1;plen=1;sel=0,1", "n=3;k=2;dup=1;plen=1;sel=2,3,4",
                              "n=19;k=0,1;dup=0;plen=1", "n=19;k=2;dup=0;plen=1;sel=0,1,2", "n=19;k=2;dup=0;plen=1;sel=3,4,5", "n=255;k=0,1;dup=0;plen=1", "n=255;k=2;dup=0;plen=1;sel=0,1,2", "n=255;k=2;dup=0;plen=1;sel=3,4,5"],
                    "thorough": ["n=0;k=0..5;dup=0", "n=1;k=0..3;dup=0", "n=2;k=0..2;dup=0,1", "n=2;k=3;dup=0", "n=2;k=3;dup=1",
                                 "n=3;k=0..2;dup=0", "n=3;k=0..2;dup=1", "n=3;k=3;dup=0;plen=1", "n=3;k=3;dup=1;plen=1",
                                 "n=4;k=0..2;dup=0", "n=4;k=0..2;dup=1", "n=4;k=3;dup=0;plen=1", "n=4;k=3;dup=1;plen=1",
                                 "n=19;k=0..2;dup=0;plen=1", "n=19;k=0..2;dup=1;plen=1", "n=255;k=0..2;dup=0;plen=1", "n=255;k=0..2;dup=1;plen=1"]},
         "timeout": {"quick": 1500, "thorough": 20000}},
        {"pkg": "./pkg/vaa", "entry": "VerifC06_BodyBound", "reach": ["accepted", "rejected"]},
    ],
    "bounds": {
        "quick": {"guardian list": "length n in {0,1,2,3,19,255}; distinct addresses, or list[1]==list[0] (dup) for n in {2,3}",
                  "signatures": "k <= 3 (n<=2), k <= 2 (n>=3); every guardian-index byte fully symbolic; each slot's bytes: signed by any of the first min(n,4) members over the digest, by member 0 over a digest with one symbolic body-hash bit flipped, or 65 arbitrary bytes",
                  "body": "all body fields symbolic, payload length 1..2"},
        "thorough": {"guardian list": "n in {0,1,2,3,4,19,255}, with and without a repeated address", "signatures": "k <= 3 everywhere"}},
    "outside": "k >= 4 signatures; lists with more than one repeated address; list lengths other than those listed (the code's only size-dependent operations are the two integer comparisons against len(list), exercised at 0..4, 19 and 255 with a symbolic index byte)",
    "assumptions": ["ecrecover model (DESIGN 4.1): a (digest,signature) pair produced by SignBy recovers to its key; any other pair fails or recovers to an address different from every honest key (existential unforgeability); recovery is a function of (digest, signature)",
                    "Keccak-256 uninterpreted; VerifC06_BodyBound additionally assumes collision-freeness on the pre-images hashed on the path"],
}
