"""Per-property check specifications (entries, shards, bounds text). See DESIGN.md §6."""
import os

CHECKS = {}

from extract import contracts as _ct


def _gen_c04(repo, work):
    sol, ral = _ct.sol_parse_vm(repo), _ct.ral_parse_vaa(repo)
    path = os.path.join(work, "gen_c04.go")
    with open(path, "w") as f:
        f.write("package vaa\n\n// generated from ethereum/contracts/Messages.sol and alephium/contracts/governance.ral by extract/contracts.py\n")
        f.write(_ct.go_layout("verifSolLayout", sol))
        f.write(_ct.go_layout("verifRalLayout", ral))
    return [path]


def _gen_c11(repo, work):
    a = _ct.ral_attest_layout(repo)
    path = os.path.join(work, "gen_c11.go")
    with open(path, "w") as f:
        f.write("package alephium\n\n// generated from alephium/contracts/token_bridge/token_bridge.ral attestToken by extract/contracts.py\n")
        f.write("var verifAttestLayout = verifAttest{TokenID: [2]int{%d, %d}, Decimals: [2]int{%d, %d}, Symbol: [2]int{%d, %d}, Name: [2]int{%d, %d}, Total: %d}\n" % (
            a["localTokenId"] + a["decimals"] + a["symbol"] + a["name"] + (a["_total"],)))
    return [path]


def _gen_c15(repo, work):
    g = _ct.ral_governance_parsers(repo)
    # action ids of the two free-form upgrade kinds
    import re
    src = _ct._strip_comments(open(os.path.join(repo, "alephium/contracts/governance.ral")).read())
    core_up = int(re.search(r"ContractUpgrade\s*=\s*#([0-9a-fA-F]{2})", src).group(1), 16)
    src2 = _ct._strip_comments(open(os.path.join(repo, "alephium/contracts/token_bridge/token_bridge_governance.ral")).read())
    tb_up = int(re.search(r"ContractUpgrade\s*=\s*#([0-9a-fA-F]{2})", src2).group(1), 16)
    path = os.path.join(work, "gen_c15.go")
    with open(path, "w") as f:
        f.write("package guardiand\n\n// generated from governance.ral and token_bridge_governance.ral by extract/contracts.py\n")
        f.write("const verifCoreUpgradeAction = %d\nconst verifTBUpgradeAction = %d\n" % (core_up, tb_up))
        f.write("var verifGovParsers = map[string]verifGovParser{\n")
        for name, p in sorted(g.items()):
            seen, fl = set(), []
            for (n, a, b) in p["fields"]:
                if (a, b) in seen:
                    continue
                seen.add((a, b))
                fl.append('{"%s", %d, %d}' % (n, a, b))
            base, lf, k = p["size"]
            f.write('\t"%s": {ModuleHex: "%s", Action: %d, Fields: []verifGovField{%s}, SizeBase: %d, SizeLenField: "%s", SizeLenFactor: %d},\n' % (
                name, p["module"], p["action"], ", ".join(fl), base, lf or "", k))
        f.write("}\n")
    return [path]


def _gen_c07(repo, work):
    sol, ral = _ct.sol_quorum_expr(repo), _ct.ral_quorum_expr(repo)
    path = os.path.join(work, "gen_c07.go")
    with open(path, "w") as f:
        f.write("package processor\n\n// generated from Messages.sol quorum() and governance.ral quorumSize by extract/contracts.py\n")
        f.write("func verifSolQuorum(n uint64) uint64 { return %s }\n" % sol)
        f.write("func verifRalQuorum(n uint64) uint64 { return %s }\n" % ral)
        f.write("\n// use sites: verifyVM answers \"no quorum\" when ..., parseAndVerifyVAA asserts ...\n")
        f.write("func verifSolRejects(s, n uint64) bool { return %s }\n" % _ct.sol_quorum_use(repo))
        f.write("func verifRalAccepts(s, n uint64) bool { return %s }\n" % _ct.ral_quorum_use(repo))
    return [path]


CHECKS["C07"] = {
    "runs": [
        {"pkg": "./pkg/processor", "entry": "VerifC07_Quorum", "reach": ["end"]},
        {"mod": "explorer-backend", "pkg": "./processor", "entry": "VerifC07_ExplorerQuorum", "reach": ["end"]},
    ],
    "exhaustive": True,
    "bounds": {"n": "0..255 (symbolic; the property's whole domain)", "s": "number of signatures 0..255 (symbolic; the wire format's one-byte count) for the contracts' use sites"},
    "outside": "nothing: n ranges over the wire format's one-byte guardian count (the contract expressions are evaluated in 64-bit arithmetic; for n <= 255 no intermediate exceeds 2^16, so checked 256-bit arithmetic gives the same value)",
    "assumptions": ["contract formulas are extracted as arithmetic expression text from Messages.sol quorum() and governance.ral (let quorumSize = ...) on every run, and so are the conditions under which the contracts apply them (the `no quorum` test of verifyVM, the InvalidSignatureSize assertion of parseAndVerifyVAA); the extractor fails closed",
                    "explorer-backend links github.com/alephium/wormhole-fork/node from the module cache (go.mod), that copy is what is analysed for it"],
}

def _ranges(name, lo, hi, step):
    return ["%s=%d..%d" % (name, a, min(a + step - 1, hi)) for a in range(lo, hi + 1, step)]

CHECKS["C05"] = {
    "runs": [
        {"pkg": "./pkg/vaa", "entry": "VerifC05_RoundTrip", "reach": ["end"],
         "shards": {"quick": ["nsig=0", "nsig=1", "nsig=2;plen=1..1001", "nsig=2;plen=1002..70000"],
                    "thorough": ["nsig=0", "nsig=1", "nsig=2", "nsig=3", "nsig=19", "nsig=255;plen=1..1001", "nsig=255;plen=1002..70000"]}},
        {"pkg": "./pkg/vaa", "entry": "VerifC05_Decode", "reach": ["accepted", "rejected"],
         "shards": {"quick": _ranges("L", 0, 59, 60) + _ranges("L", 60, 131, 9), "thorough": _ranges("L", 0, 59, 60) + _ranges("L", 60, 400, 12)}},
        {"pkg": "./pkg/vaa", "entry": "VerifC05_DecodeLong", "reach": ["accepted", "rejected"]},
    ],
    "bounds": {
        "quick": {"RoundTrip": "payload length in {1,2,3,100,999,1000,1001,2000,4096,4097,65535,65536,65537} plus c-1,c,c+1,2c for every integer constant c in [64,200000] of Unmarshal's SSA (derived per run); 0..2 signatures; every other field fully symbolic",
                  "Decode": "every byte string of length 0..131 (all bytes symbolic, signature-count byte symbolic: forks over every feasible count); plus lengths 1057,1058,2100,66000 and the constant-derived ones with <= 2 signatures",
                  "unwind": 3000},
        "thorough": {"RoundTrip": "same payload lengths; 0,1,2,3,19,255 signatures",
                     "Decode": "every byte string of length 0..400; long inputs as in quick", "unwind": 3000}},
    "outside": "byte strings longer than the listed ranges other than the constant-derived lengths; payload lengths not listed; timestamps >= 2^32 (not representable in the format)",
    "assumptions": ["encoding/binary.Read/Write modelled as big-endian bytes of the static fixed-size type (DESIGN 4); bytes.Reader/bytes.Buffer executed as real code",
                    "Keccak-256 as an uninterpreted function per input length (the digest assertion needs only congruence)"],
}

CHECKS["C06"] = {
    "runs": [
        {"pkg": "./pkg/vaa", "entry": "VerifC06_Verify", "reach": ["accepted", "rejected"],
         "shards": {"quick": ["n=0;k=0..5;dup=0", "n=1;k=0..3;dup=0", "n=2;k=0,1;dup=0,1", "n=2;k=2;dup=0", "n=2;k=2;dup=1", "n=2;k=3;dup=0,1;plen=1",
                              "n=3;k=0,1;dup=0,1", "n=3;k=2;dup=0;plen=1;sel#0=0,1", "n=3;k=2;dup=0;plen=1;sel#0=2,3,4", "n=3;k=2;dup=1;plen=1;sel#0=0,1", "n=3;k=2;dup=1;plen=1;sel#0=2,3,4",
                              "n=19;k=0,1;dup=0;plen=1", "n=19;k=2;dup=0;plen=1;sel#0=0,1,2", "n=19;k=2;dup=0;plen=1;sel#0=3,4,5",
                              "n=255;k=0,1;dup=0;plen=1", "n=255;k=2;dup=0;plen=1;sel#0=0,1,2", "n=255;k=2;dup=0;plen=1;sel#0=3,4,5"],
                    "thorough": ["n=0;k=0..5;dup=0", "n=1;k=0..3;dup=0", "n=2;k=0..2;dup=0", "n=2;k=0..2;dup=1", "n=2;k=3;dup=0,1",
                                 "n=3;k=0..2;dup=0", "n=3;k=0..2;dup=1"] +
                                ["n=3;k=3;dup=%d;plen=1;sel#0=%d" % (d, x) for d in (0, 1) for x in range(5)] +
                                ["n=4;k=0..2;dup=0;plen=1", "n=4;k=0..2;dup=1;plen=1"] +
                                ["n=4;k=3;dup=%d;plen=1;sel#0=%d" % (d, x) for d in (0, 1) for x in range(6)] +
                                ["n=19;k=0..2;dup=0;plen=1", "n=19;k=0..2;dup=1;plen=1", "n=19;k=3;dup=0;plen=1;sel#0=0", "n=19;k=3;dup=0;plen=1;sel#0=1", "n=19;k=3;dup=0;plen=1;sel#0=2",
                                 "n=255;k=0..2;dup=0;plen=1", "n=255;k=0..2;dup=1;plen=1"]},
         "timeout": {"quick": 1500, "thorough": 20000}},
        {"pkg": "./pkg/vaa", "entry": "VerifC06_BodyBound", "reach": ["accepted", "rejected"]},
        {"pkg": "./pkg/vaa", "entry": "VerifC06_MutateInPlace", "reach": ["changed", "unchanged"]},
        {"pkg": "./pkg/vaa", "entry": "VerifC06_Concurrent", "reach": ["end"]},
    ],
    "bounds": {
        "quick": {"guardian list": "length n in {0,1,2,3,19,255}; distinct addresses, or list[1]==list[0] (dup) for n in {2,3}; the four signing keys sit at positions 0..3 (n <= 4) or 0, 1, n-2, n-1 (n = 19, 255), all other entries are concrete distinct addresses",
                  "signatures": "k <= 3 (n<=2), k <= 2 (n>=3); guardian-index byte fully symbolic for n <= 19, in {0,1,2,3,253,254,255} for n = 255; each slot's bytes: signed by any of the first min(n,4) members over the digest, by member 0 over a digest with one symbolic body-hash bit flipped, or 65 arbitrary bytes",
                  "body": "all body fields symbolic, payload length 1..2",
                  "concurrent": "two goroutines verifying a valid VAA and a tampered copy (another sequence number, same signature) at the same time; schedules: pre-emption before every mutex/channel/sync.Pool operation and before the return of a function that puts an object back into a pool"},
        "thorough": {"guardian list": "n in {0,1,2,3,4,19,255}, with and without a repeated address", "signatures": "k <= 3 for n <= 4; n = 19: k <= 2, and k = 3 with the first slot an honest member signature; n = 255: k <= 2"}},
    "outside": "k >= 4 signatures; lists with more than one repeated address; list lengths other than those listed (the code's only size-dependent operations are the two integer comparisons against len(list), exercised at 0..4, 19 and 255 with a symbolic index byte)",
    "assumptions": ["ecrecover model (DESIGN 4): a (digest,signature) pair produced by SignBy recovers to its key; any other pair fails or recovers to an address different from every honest key (existential unforgeability); recovery is a function of (digest, signature)",
                    "Keccak-256 uninterpreted; VerifC06_BodyBound additionally assumes collision-freeness on the pre-images hashed on the path"],
}

CHECKS["C04"] = {
    "runs": [
        {"pkg": "./pkg/vaa", "entry": "VerifC04_Layout", "reach": ["end"],
         "shards": {"quick": ["v.plen=0,1,2;v.nsig=0..2", "v.plen=3,100;v.nsig=0..2"], "thorough": ["v.plen=0..3", "v.plen=100", "v.plen=1000,1001"]}},
        {"pkg": "./pkg/vaa", "entry": "VerifC04_Independence", "reach": ["same-body-fields", "equal-bodies"],
         "shards": {"quick": ["a.plen=0,1,2;b.plen=0,1,2;a.nsig=0,1;b.nsig=0,1"], "thorough": ["a.plen=0..3;b.plen=0..3", "a.plen=100;b.plen=100", "a.plen=1000;b.plen=1000"]}},
        {"pkg": "./pkg/vaa", "entry": "VerifC04_InjectiveLengths", "reach": ["different-lengths"],
         "shards": {"quick": ["a.plen=0..3;b.plen=0..3"], "thorough": [""]}},
        {"pkg": "./pkg/vaa", "entry": "VerifC04_Recompute", "reach": ["recomputed"],
         "shards": {"quick": ["v.plen=1,2;v.nsig=0,1"], "thorough": ["v.plen=1,2,3;v.nsig=0,1"]}},
        {"pkg": "./pkg/vaa", "entry": "VerifC04_WireDigest", "reach": ["end"]},
    ],
    "bounds": {"quick": {"recompute": "digest asked for, then one body field changed in place or in a by-value copy (8 fields, new value symbolic), digest asked for again; payload 1..2 bytes",
                         "wire digest": "Marshal then Unmarshal then SigningMsg at payload lengths 1,2,100,1000,1001,65535,65536 plus c-1,c,c+1,2c for every integer constant c in [64,200000] of Unmarshal's SSA; no signatures",
                         "payload length": "0,1,2,3,100", "signatures": "0..2 (Layout), 0..1 (Independence)", "fields": "every field fully symbolic, nanoseconds 0..999999999 symbolic"},
               "thorough": {"payload length": "0,1,2,3,100,1000,1001", "signatures": "0..4"}},
    "outside": "payload lengths and signature counts not listed; timestamps outside the 32-bit whole-second range of the wire format; the contracts themselves are read as text (layout and hash structure extracted by pattern, fail-closed), not executed",
    "assumptions": ["Keccak-256 uninterpreted (congruence only)", "encoding/binary.Write model (DESIGN 4)",
                    "contract layouts come from extract/contracts.py run on the current contract sources"],
}

_D5 = [1, 2, 3, 4, 5]
_D4 = [1, 2, 3, 5]
CHECKS["C12"] = {
    "runs": [
        {"pkg": "./pkg/vaa", "entry": "VerifC12_Keys", "reach": ["equal-keys", "gov-prefix-hit", "prefix-hit"], "opts": {"exactfmt": "true"},
         "shards": {"quick": ["maxseq=10;a.ec.digits=%d" % a for a in _D5],
                    "thorough": ["maxseq=1000;a.ec.digits=%d;p.ec.digits=%d" % (a, b) for a in _D5 for b in _D5]},
         "timeout": {"quick": 1500, "thorough": 20000}},
        {"pkg": "./pkg/db", "entry": "VerifC12_Store", "reach": ["lookup-absent", "lookup-present", "stream-empty", "stream-nonempty"], "opts": {"exactfmt": "true"},
         "shards": {"quick": ["nvaa=0,1;maxseq=3"] + ["nvaa=2;maxseq=3;q.tc.digits=%d;v.tc.digits#0=%d" % (a, b) for a in _D4 for b in _D4] +
                             ["nvaa=0,1;maxseq=12", "nvaa=2;maxseq=12;v.ec.digits=1;v.tc.digits=1;q.ec.digits=1;q.tc.digits=1"],
                    "thorough": ["nvaa=0,1"] + ["nvaa=2;maxseq=3;q.tc.digits=%d;v.tc.digits#0=%d" % (a, b) for a in _D4 for b in _D4] +
                                ["nvaa=2;maxseq=12;v.ec.digits=1,2;q.ec.digits=1,2;v.tc.digits=1,2;q.tc.digits=%d;v.tc.digits#0=%d" % (a, b) for a in (1, 2) for b in (1, 2)] +
                                ["nvaa=3;maxseq=3;v.ec.digits=1,2;q.ec.digits=1,2;v.tc.digits=1,2,3;q.tc.digits=%d;v.tc.digits#0=%d" % (a, b) for a in (1, 2, 3) for b in (1, 2, 3)]}},
        {"pkg": "./pkg/db", "entry": "VerifC12_GovBatch", "reach": ["some", "none"], "opts": {"exactfmt": "true"},
         "shards": {"quick": ["nvaa=0,1"] + ["nvaa=2;gov.ec.digits=%d;v.tc.digits#0=%d;v.ec.digits=1,2;v.tc.digits#1=1,2;nreq=%d" % (a, b, r) for a in (1, 2) for b in (1, 2) for r in (1, 2)],
                    "thorough": ["nvaa=0,1"] + ["nvaa=2;gov.ec.digits=%d;v.tc.digits#0=%d;nreq=%d" % (a, b, r) for a in _D4 for b in _D4 for r in (1, 2)]},
         "timeout": {"quick": 2400, "thorough": 30000}},
        {"pkg": "./cmd/guardiand", "entry": "VerifC12_FindMissing", "reach": ["answered", "rejected"], "opts": {"exactfmt": "true", "z3": "z3-new"}},
        {"pkg": "./pkg/publicrpc", "entry": "VerifC12_PublicRPC", "reach": ["rpc-present", "rpc-absent", "batch-answered", "batch-rejected"],
         "opts": {"summary": "vaaid", "z3": "z3-new"},
         "shards": {"quick": ["nvaa=0,1"] + ["nvaa=2;q.ec.class=%d;q.tc.class=%s" % (a, b) for a in (0, 1, 2) for b in ("0", "1,2")],
                    "thorough": ["nvaa=0,1"] + ["nvaa=2;q.ec.class=%d;q.tc.class=%s" % (a, b) for a in (0, 1, 2) for b in ("0", "1,2")]}},
    ],
    "bounds": {"quick": {"operator gap query": "FindMissingMessages over 0..2 stored VAAs (one-digit chains, address bytes 0 and 31 symbolic, sequence 0..3): 32-bit chain numbers in range or wrapping onto a stored chain, address string of 32/31/33 bytes or invalid hex",
                         "public rpc": "0..2 stored VAAs with fully symbolic identifiers; one request with 32-bit chain numbers (in range / above 65535 / negative), the address string in six forms (lower/upper-case hex of 32 bytes, 31 bytes, 33 bytes, a non-hex character, empty), any sequence; batch of 0, 1, 2 or 21 sequences; GetSignedVAA and GetNonGovernanceVAABatch as real code over the db code and the key-value model (identifier key summarised as injective - licensed by the key lemmas)",
                         "key lemmas": "two fully symbolic identifiers: every 16-bit emitter/target chain id (all five decimal digit counts), every 32-byte address, sequences < 10",
                         "store": "0..2 stored VAAs with symbolic ids (chain ids from the digit classes 1,2,3,5 digits, address bytes 0 and 31 symbolic, sequence 0..3 - with one-digit chain ids also 0..12, i.e. one- and two-digit sequence keys -, ids may coincide) + one symbolic query id; lookup, gap scan and governance batch on the real db code over a key-value model of badger",
                         "unwind": 3000},
               "thorough": {"key lemmas": "sequences < 1000", "store": "additionally 3 stored VAAs with chain ids of 1..3 digits"}},
    "outside": "badger itself (modelled as a key->value map whose prefix iteration visits exactly the keys having the prefix, in lexicographic key order); 4-digit chain ids in the store harness (covered by the key lemmas); more than 3 stored VAAs; sequences >= 1000 in keys and > 3 in the gap loop (at 2^64-1 the gap loop cannot terminate - noted, not a property subject); the order of batch results",
    "assumptions": ["badger model (DESIGN 4): Get of an absent key returns ErrKeyNotFound; an iterator visits exactly the present keys that have the Seek prefix, smallest key first (lexicographic byte order, decided by the solver)",
                    "fmt %d rendered exactly: digit-count forks, digit variables tied to the value by value = sum d_i*10^i",
                    "hex.EncodeToString modelled as the injective per-nibble rendering"],
}
_PROC_OPTS = {"summary": "vaaid", "z3": "z3-new"}
_c01_static_q = (["n=1;m.plen=1", "n=2;m.plen=1;own=0", "n=2;m.plen=1;own=1"] + ["n=2;m.plen=1;own=2;advAt=%d" % a for a in (0, 1, 2)] +
                 ["n=3;m.plen=1;own=%d;advAt=%d;early=%s" % (o, a, e) for o in (0, 1) for a in (0, 2) for e in ("9", "0,1")] +
                 ["n=3;m.plen=1;own=3;advAt=%d;early=%s;deliver#0=%d" % (a, e, d) for a in (0, 2) for e in ("9", "0") for d in (0, 1)])
_c01_static_t = (["n=1", "n=2;own=0", "n=2;own=1", "n=2;own=2"] +
                 ["n=3;m.plen=1;own=%d;advAt=%d;early=%s" % (o, a, e) for o in (0, 1, 2, 3) for a in (0, 1, 2) for e in ("9", "0", "1", "2")] +
                 ["n=4;m.plen=1;own=%d;advAt=%d;early=%s;deliver#0=%d;deliver#1=%d" % (o, a, e, d0, d1) for o in (0, 2, 4) for a in (0, 2) for e in ("9", "1") for d0 in (0, 1) for d1 in (0, 1)])
_c01_sc_q = ["nA=%d;nB=%d;shift=%d;m.plen=1;early=9,1" % (a, b, sh) for a in (1, 2) for b in (1, 2) for sh in (0, 1, 2)]
_c01_sc_t = ["nA=%d;nB=%d;shift=%d;m.plen=1;change=%d" % (a, b, sh, c) for a in (1, 2, 3) for b in (1, 2, 3) for sh in (0, 1, 2) for c in (1, 2)]
_c01_in_q = (["n=0,1;m.plen=1", "n=2;m.plen=1;nsig=0..2", "n=2;m.plen=1;nsig=3;haveSet=1;prestored=0", "n=3;m.plen=1;nsig=0..2"] +
             ["n=3;m.plen=1;nsig=3;haveSet=1;prestored=0;sel#0=%s" % x for x in ("0", "1", "2", "6", "7", "8")] +
             ["n=4;m.plen=1;nsig=2;haveSet=1;prestored=0", "n=6;m.plen=1;nsig=4;haveSet=1;prestored=0;sel#0=0;sel#1=1;sel#2=2;sel#3=3", "n=6;m.plen=1;nsig=5;haveSet=1;prestored=0;sel#0=0;sel#1=1;sel#2=2;sel#3=3;sel#4=4"])
_c01_in_t = (["n=0,1", "n=2;nsig=0..2", "n=2;nsig=3", "n=3;nsig=0..2"] +
             ["n=3;m.plen=1;nsig=3;sel#0=%s" % x for x in ("0", "1", "2", "6", "7", "8")] +
             ["n=4;m.plen=1;nsig=0..2"] + ["n=4;m.plen=1;nsig=3;haveSet=1;prestored=0;sel#0=%s;sel#1=%s" % (x, y) for x in ("0", "1", "2", "3", "6", "7", "8") for y in ("0,1", "2,3", "6,7,8")] +
             ["n=6;m.plen=1;nsig=4;haveSet=1;prestored=0;sel#0=0;sel#1=1;sel#2=2", "n=6;m.plen=1;nsig=5;haveSet=1;prestored=0;sel#0=0;sel#1=1;sel#2=2;sel#3=3"])
CHECKS["C01"] = {
    "runs": [
        {"pkg": "./pkg/processor", "entry": "VerifC01_Static", "reach": ["published", "not-published", "stored", "broadcast"], "opts": _PROC_OPTS,
         "shards": {"quick": _c01_static_q, "thorough": _c01_static_t}, "timeout": {"quick": 2400, "thorough": 30000}},
        {"pkg": "./pkg/processor", "entry": "VerifC01_SetChange", "reach": ["published", "not-published"], "opts": _PROC_OPTS,
         "shards": {"quick": _c01_sc_q, "thorough": _c01_sc_t}, "timeout": {"quick": 2400, "thorough": 30000}},
        {"pkg": "./pkg/processor", "entry": "VerifC01_Inbound", "reach": ["accepted", "rejected", "prestored"], "opts": _PROC_OPTS,
         "shards": {"quick": _c01_in_q, "thorough": _c01_in_t}, "timeout": {"quick": 2400, "thorough": 30000}},
    ],
    "bounds": {"quick": {"observation path, one set": "set size n = 1..3 (own key at position 0, 1 or not a member); message fully symbolic (payload 1 byte); optional early peer observation; every subset of the other members' honest observations; own loopback first or last; one fully symbolic adversarial observation (20+32+65 arbitrary bytes) before the local observation or last",
                         "set change": "|A|,|B| in 1..2, B = keys shift..shift+|B|-1 with shift 0..2, change before or after the own observation, optional early observation, every subset of later honest observations",
                         "inbound": "current set n = 0..3 (and 4 with 2 signatures, 6 with 4 and 5 honest signatures), no set yet / set known, 0..3 signatures each {member j over the digest, member 0 over another digest, 65 arbitrary bytes, unrecoverable bytes} with symbolic index byte, with and without a VAA already stored under the id",
                         "unwind": 3000},
               "thorough": {"observation path": "n = 1..4, own at every position, adversarial observation at three places, payload 0..2 bytes for n <= 2", "set change": "|A|,|B| in 1..3", "inbound": "n <= 4 with <= 3 signatures"}},
    "outside": "guardian sets larger than 4 (6 on the inbound path with honest signatures only) - the size-dependent arithmetic is covered for all n <= 255 by C07 and the index/ordering logic for n up to 255 by C06; more than one adversarial observation per history; more than one message per history; libp2p transport and the reporter; badger (key-value model); timing",
    "assumptions": ["ecrecover/keccak model (DESIGN 4): unforgeability - a signature not produced by SignBy never recovers to an honest key",
                    "(*VAAID).Bytes summarised as an injective encoding of its four fields (licensed by C12's key-injectivity lemma)",
                    "proto.Marshal/Unmarshal: opaque handle carrying the message (DESIGN 4); badger as a key-value map; zap/prometheus/reporter no-ops",
                    "the processor is one goroutine: a history is a sequence of handler calls; the own-observation loopback goroutine is delivered at a harness-chosen point"],
}
_c02_q = (["n=1;m.plen=1"] + ["n=2;m.plen=1;own=%d;noise=%s" % (o, z) for o in (0, 1) for z in ("0,1,2,3", "5,6,7")] +
          ["n=2;m.plen=1;own=2;noise=%s;loopback=%d" % (z, l) for z in ("0", "1,2,3", "5,6,7") for l in (0, 1, 2)] +
          ["n=3;m.plen=1;own=%d;noise=0;loopback=%d;when#0=%s" % (o, l, w) for o in (0, 1) for l in (0, 1, 2) for w in ("0,1", "2,3")] +
          ["n=3;m.plen=1;own=0;noise=%d;loopback=%d" % (z, l) for z in (2, 6) for l in (0, 1)])
_c02_t = (["n=1", "n=2;own=0", "n=2;own=1", "n=2;own=2"] +
          ["n=3;m.plen=1;own=%d;noise=%s;loopback=%d" % (o, z, l) for o in (0, 1, 2, 3) for z in ("0", "1,2,3", "4", "5,6,7", "8") for l in (0, 1, 2)] +
          ["n=4;m.plen=1;own=%d;noise=0;loopback=%d;when#0=%d" % (o, l, w) for o in (0, 4) for l in (0, 1, 2) for w in (0, 1, 2, 3)])
CHECKS["C02"] = {
    "runs": [
        {"pkg": "./pkg/processor", "entry": "VerifC02_ExactlyWhen", "reach": ["published", "never-published"], "opts": _PROC_OPTS,
         "shards": {"quick": _c02_q, "thorough": _c02_t}, "timeout": {"quick": 2400, "thorough": 30000}},
        {"pkg": "./pkg/processor", "entry": "VerifC01_SetChange", "reach": ["published", "not-published"], "opts": _PROC_OPTS,
         "shards": {"quick": _c01_sc_q, "thorough": _c01_sc_t}, "timeout": {"quick": 2400, "thorough": 30000}},
        {"pkg": "./pkg/processor", "entry": "VerifC02_GovernanceEmitter", "reach": ["governance", "ordinary"], "opts": _PROC_OPTS},
        {"pkg": "./pkg/processor", "entry": "VerifC02_Loopback", "reach": ["end"], "opts": dict(_PROC_OPTS, clockfiles="pkg/processor/cleanup.go,pkg/processor/broadcast.go,pkg/processor/observation.go")},
    ],
    "bounds": {"quick": {"histories": "one message M (fully symbolic, 1-byte payload); guardian set n = 1..3, own key at position 0 or 1 (n <= 2: also not a member); every assignment of each other member to {never, before the local observation, after it, both}; own loopback first / last / never; at most one invalid observation (outsider key; member over a decoy digest; outsider signature under a member address) before or after the local observation (thorough adds 117 arbitrary bytes with another digest); a second local observation and second loopback at the end",
                         "set change": "the C01 set-change scenarios (|A|,|B| <= 2) with the ghost count of distinct relevant members delivered", "governance emitter": "message fully symbolic, n = 3",
                         "loopback": "n = 1..2, own key first; inbound observation queue empty or filled to capacity when the message is observed; then a second local observation of the same message"},
               "thorough": {"histories": "n = 1..4 (n = 4: no invalid traffic), own at every position, payload 0..2 bytes for n <= 2"}},
    "outside": "orders of deliveries of different members inside one phase (they are delivered in key order; the handler is order-insensitive by C01's per-step invariant but this is not asserted here); more than one invalid observation per history; more than one aggregation lifetime (expiry then revival is C14's subject); n > 4",
    "assumptions": CHECKS["C01"]["assumptions"],
}
_CLOCK = "pkg/processor/cleanup.go,pkg/processor/broadcast.go,pkg/processor/observation.go"
_PROC_CLOCK_OPTS = dict(_PROC_OPTS, clockfiles=_CLOCK)
_c13_q = (["K=1"] + ["K=2;ev#0=%d" % a for a in range(9)] + ["K=3;m.plen=0,1;ev#0=%d;ev#1=%d" % (a, b) for a in range(9) for b in range(9)] +
          ["K=4;m.plen=0;setsize=1;ev#0=0;ev#1=1;ev#2=2;inj.plen=0", "K=4;m.plen=0,1;setsize=1,2;ev#0=0;ev#1=7;ev#2=2,4;inj.plen=0", "K=4;m.plen=1;setsize=2;ev#0=0;ev#1=1;ev#2=4,2", "K=4;m.plen=1;ev#0=0;ev#1=1;ev#2=0;ev#3=2,3,4,8", "K=4;m.plen=1;ev#0=0;ev#1=4;ev#2=0;ev#3=1,2,4,8"])
_c13_t = (["K=1", "K=2"] + ["K=3;ev#0=%d;ev#1=%d" % (a, b) for a in range(9) for b in range(9)] +
          ["K=4;m.plen=0,1;inj.plen=0;setsize=1,2;ev#0=0;ev#1=%d;ev#2=%d" % (a, b) for a in range(9) for b in range(9)] +
          ["K=4;m.plen=0,1;inj.plen=0;ev#0=7;ev#1=%d;ev#2=%d" % (a, b) for a in range(9) for b in range(9)])
CHECKS["C13"] = {
    "runs": [
        {"pkg": "./pkg/processor", "entry": "VerifC13_Histories", "reach": ["end"], "opts": _PROC_CLOCK_OPTS,
         "shards": {"quick": _c13_q, "thorough": _c13_t}, "timeout": {"quick": 2400, "thorough": 30000}},
        {"pkg": "./pkg/processor", "entry": "VerifC13_ObserveTwice", "reach": ["looped-back", "observed-again", "dropped-governance"], "opts": _PROC_CLOCK_OPTS},
        # the real Run loop as a goroutine fed through its channels (dispatch, set update, ticker, cancellation)
        {"pkg": "./pkg/processor", "entry": "VerifC13_RunLoop", "reach": ["end", "completed"], "opts": dict(_PROC_OPTS, clockfiles=_CLOCK + ",pkg/processor/processor.go"),
         "shards": {"quick": ["K=1,2"] + ["K=3;m.plen=0,1;ev#0=%d" % a for a in (0, 1, 3, 4, 5, 6, 7, 8)],
                    "thorough": ["K=1,2"] + ["K=3;m.plen=0,1;ev#0=%d" % a for a in (0, 1, 3, 4, 5, 6, 7, 8)]},
         "timeout": {"quick": 2400, "thorough": 30000}},
    ],
    "bounds": {"quick": {"histories": "every sequence of K <= 3 events from the uninitialised processor over the 9-letter alphabet {set update (0..2 keys), chain message M (payload 0..1 bytes, all fields symbolic), delivery of the own loopback, adversarial observation (address/digest/signature each nil, empty, short, exact, long; contents symbolic), honest observation by member 1, inbound VAA of arbitrary bytes (9 lengths incl. nil), inbound well-formed VAA, injected VAA (payload 0..1), cleanup tick after an arbitrary clock advance}; for K = 3 the malformed-length combinations are reduced to four forms; plus selected K = 4 prefixes (set update, message, loopback, *; set update, injection, *, *; set update, message|observation, set update, *)",
                         "run loop": "the REAL Processor.Run as a goroutine: K <= 3 inputs over its channels (set update, chain message, adversarial / honest observation, inbound bytes / well-formed VAA, injection, the 30 s cleanup ticker fired by the harness), the own loopback consumed by Run itself, then cancellation; besides no-panic: every input is consumed, a set update is installed, an observed message is signed (and completes with a one-member set), Run returns on cancellation",
                         "unwind": 3000},
               "thorough": {"histories": "all K <= 3; all K = 4 histories that start with a set update or an injection", "run loop": "as quick"}},
    "outside": "histories longer than the bound; more than one distinct chain message; in the Run-loop entry inputs arrive one at a time (the loop's select never has two ready cases); guardian sets larger than 2; panics inside libp2p/badger/zap themselves; the notifier (nil in the harness, as in production without a Discord token)",
    "assumptions": CHECKS["C01"]["assumptions"] + ["clock: time.Now()/time.Since( in cleanup.go, broadcast.go, observation.go redirected mechanically to the harness clock (arbitrary non-decreasing instants); Duration.Minutes()/Hours() comparisons replaced by integer comparisons only after the equivalence was proved on the SSA-executed stdlib code"],
}
_c14 = (["m.plen=1;n=%d;kind=%d;stored=%d;reqQueueFull=%d" % (n, k, st, q) for n in (1, 3) for k in (0, 1, 2) for st in (0, 1) for q in (0, 1)] +
        ["m.plen=1;n=0;kind=2;stored=%d" % st for st in (0, 1)])
CHECKS["C14"] = {
    "runs": [
        {"pkg": "./pkg/processor", "entry": "VerifC14_Tick", "reach": ["deleted", "kept", "retried"], "opts": _PROC_CLOCK_OPTS,
         "shards": {"quick": _c14, "thorough": [x.replace("m.plen=1;", "") for x in _c14]}, "timeout": {"quick": 2400, "thorough": 30000}},
        # the schedule counts from the first observation: a later re-observation of the message must not postpone it
        {"pkg": "./pkg/processor", "entry": "VerifC02_Loopback", "reach": ["end"], "opts": _PROC_CLOCK_OPTS},
    ],
    "bounds": {"quick": {"re-observation": "a second local observation of a pending or published message (n = 1..2) leaves firstObserved, lastRetry, retryCount, settled, submitted unchanged",
                         "step": "ONE cleanup tick on ONE aggregation entry of any constructible kind {observed on chain, signatures only, injected}; firstObserved, lastRetry (or never retried) and the tick's clock readings arbitrary non-decreasing instants (64-bit monotonic nanoseconds); retryCount any 32-bit value; submitted/settled any; 0, 1 or 3 recorded signatures; guardian set of 1 or 3, or no set learned yet (then the entry is an operator injection - the only kind that can exist before the first set); optionally a store fault during the tick (the store was closed: lookups fail with badger.ErrDBClosed); a quorum VAA for the message stored or not; re-observation request queue empty or full",
                         "unwind": 3000},
               "thorough": {"step": "same, message payload 0..2 bytes"}},
    "outside": "sequences of ticks are covered inductively only through the per-tick obligations (discard-only-with-cause, retry-only-when-due, per-tick progress); several entries per tick (the loop body does not couple entries except through the shared channels, whose capacity is not exhausted by one entry); the Discord notifier (nil); real timers",
    "assumptions": CHECKS["C13"]["assumptions"] + ["clock readings carry monotonic readings as real time.Now() values do, so Sub/Since are the stdlib's 64-bit monotonic subtraction"],
}
CHECKS["C03"] = {
    "runs": [
        {"pkg": "./pkg/p2p", "entry": "VerifC03_Heartbeat", "reach": ["accepted", "rejected"], "shards": {"quick": ["n=0,1", "n=2;L=0,1,22", "n=2;L=23,24", "n=2;L=25,40"]}},
        {"pkg": "./pkg/p2p", "entry": "VerifC03_ObservationRequest", "reach": ["accepted", "rejected"], "shards": {"quick": ["n=0,1", "n=2;L=0,1,5", "n=2;L=6,7", "n=2;L=8,40"]}},
        {"pkg": "./pkg/p2p", "entry": "VerifC03_HeartbeatCap", "reach": ["stored", "refused"]},
        {"pkg": "./pkg/processor", "entry": "VerifC03_Observation", "reach": ["changed", "unchanged"], "opts": _PROC_OPTS,
         "shards": {"quick": ["m.plen=1;tester=%s;local=%d" % (t, l) for t in ("0", "1", "2", "3", "9") for l in (0, 1, 2)],
                    "thorough": ["tester=%s;local=%d" % (t, l) for t in ("0", "1", "2", "3", "9") for l in (0, 1, 2)]}},
    ],
    "bounds": {"quick": {"heartbeat / request": "guardian set of 0..2 keys; body lengths around the floor (heartbeat 0,1,22,23,24,25,40; request 0,1,5,6,7,8,40) with fully symbolic bytes; claimed address = a member's, an outsider's, 20 arbitrary bytes, none, or 21 bytes; signature by a member or outsider over the correctly prefixed digest, by a member over the bare body hash, over the other message type's prefixed digest, over keccak(bare hash) (the shape of a VAA signature), or 64/65/66 arbitrary bytes",
                         "heartbeat table": "0..16 existing node entries for one guardian, then a heartbeat from a known or a new peer",
                         "observation": "sets A={0,1}, B={1,2}; optional earlier gossip observation; node never observed / observed under A / observed after the change; optional change to B; test observation honest by key 0..3 (optionally under another key's address) or 117 arbitrary bytes"},
               "thorough": {"observation": "message payload 0..2 bytes"}},
    "outside": "libp2p transport and pubsub validation; the operator opt-out disableHeartbeatVerify=true; proto decoding of the heartbeat body (opaque model: may fail or yield any message); guardian sets larger than 2; Keccak collisions (collision-freeness assumed for the cross-domain claims)",
    "assumptions": ["ecrecover/keccak model (DESIGN 4); AssumeCollisionFree: different pre-images (or lengths) hashed on a path have different digests",
                    "pkg/p2p is loaded through an overlay in which only the body of p2p.Run is replaced by panic(\"stripped\") (quic-go does not build with the installed Go); processSignedHeartbeat / processSignedObservationRequest are byte-identical",
                    "proto.Unmarshal of attacker bytes: nondeterministic success/failure"] + CHECKS["C01"]["assumptions"][1:],
}
CHECKS["C11"] = {
    "runs": [
        {"pkg": "./pkg/alephium", "entry": "VerifC11_Narrowing", "reach": ["accepted", "rejected"],
         "shards": {"quick": ["width=8", "width=16", "width=64;num.digits=1,19,20", "width=64;num.digits=21,78"]}},
        {"pkg": "./pkg/alephium", "entry": "VerifC11_Message", "reach": ["accepted", "rejected"],
         "shards": {"quick": ["defect=0;plen=0,1;tc.digits=%s" % t for t in ("1", "5", "6")] + ["defect=0;plen=100;tc.digits=1;seq.digits=1;cl.digits=1"] +
                             ["defect=%d;plen=1;tc.digits=1,5;seq.digits=1,20;cl.digits=1,3" % d for d in range(1, 13)],
                    "thorough": ["defect=0;plen=%d;tc.digits=%s" % (p, t) for p in (0, 1, 100) for t in ("1", "5", "6")] + ["defect=%d" % d for d in range(1, 13)]}},
        {"pkg": "./pkg/alephium", "entry": "VerifC11_Publication", "reach": ["end"]},
        {"pkg": "./pkg/alephium", "entry": "VerifC11_HexAndAttest", "reach": ["attest-accepted", "attest-rejected"]},
    ],
    "bounds": {"quick": {"numerals": "decimal strings of 0..4 (uint8), 1,4,5,6 (uint16), 1,19,20,21,78 (uint64) symbolic digits without leading zero, optionally prefixed by '-' or '+', or with one arbitrary non-digit character; right or wrong type tag",
                         "events": "sender 32 symbolic bytes (or 0/31/33), nonce 4 (or 0/3/5), payload 0/1/100 symbolic bytes, numerals of 1/5/6, 1/20/21, 1/3/4 symbolic digits; exactly one defect out of twelve kinds or none",
                         "publication": "all fields symbolic, timestamp any non-negative millisecond count below 2^53",
                         "attestation": "payloads of 99/100/101 symbolic bytes (symbol/name: first and last two bytes symbolic)"},
               "thorough": {"events": "all digit-count combinations with every defect"}},
    "outside": "ToContractId/ToContractAddress (base58 is big-integer code: not encoded; the hex pair HexToByte32/ToHex is); events with two simultaneous defects; numerals with leading zeros or more than 78 digits; JSON decoding of the SDK",
    "assumptions": ["math/big.Int modelled as an SMT Int (SetString base 10 = optional sign then digits; Cmp, Sign, IsUint64, Uint64 by their documentation)",
                    "hex.EncodeToString/Encode/DecodeString modelled as the injective per-nibble rendering and its inverse on rendered or constant digits; other inputs run the real decoder",
                    "attestation layout extracted from token_bridge.ral attestToken (payload concatenation and size assertions) on every run",
                    "pkg/alephium is loaded through the stripped-p2p.Run overlay"],
}
CHECKS["C15"] = {
    "runs": [
        {"pkg": "./cmd/guardiand", "entry": "VerifC15_Requests", "reach": ["accepted", "rejected"], "opts": {"z3": "z3-new"}, "opts_thorough": {"unwind": 70000, "steps": 40000000},
         "shards": {"quick": ["kind=0", "kind=1;amount.len=31,32", "kind=1;amount.len=33", "kind=2", "kind=3", "kind=4", "kind=5", "kind=6;sequences=0,1,2", "kind=7", "kind=8;refund.len=0,1,33", "kind=9"],
                    "thorough": ["kind=0", "kind=1", "kind=2", "kind=3", "kind=4", "kind=5", "kind=6;sequences=0,1,2", "kind=6;sequences=65535", "kind=6;sequences=65536", "kind=7", "kind=8;refund.len=0,1,33", "kind=8;refund.len=65535;refund.form=0", "kind=8;refund.len=65536;refund.form=0", "kind=9"]},
         "timeout": {"quick": 2400, "thorough": 30000}},
        {"pkg": "./cmd/guardiand", "entry": "VerifC15_Pure", "reach": ["end"], "opts": {"z3": "z3-new"}},
        {"pkg": "./cmd/guardiand", "entry": "VerifC15_Sequence", "reach": ["end"], "opts": {"z3": "z3-new"}},
    ],
    "bounds": {"quick": {"requests": "each of the nine governance message kinds plus a message without payload, through the real InjectGovernanceVAA; sequence, nonce, timestamp, set index fully symbolic; target chain any 16-bit value or 65536+x; hex fields of 0/31/32/33 symbolic bytes (valid hex, odd length, non-hex); guardians 0,1,2,3,19,20 (optionally one malformed key); module names of 0/4/11/32/33 bytes; chain ids 16-bit or 65536+x; consistency level 8-bit or 256+x; 0..2 sequences; refund address 0/1/33 bytes",
                         "contract side": "module constant, action id, payload slices and size assertions extracted from governance.ral / token_bridge_governance.ral on every run"},
               "thorough": {"requests": "additionally 65535 and 65536 sequences, refund addresses of 65535 and 65536 bytes"}},
    "outside": "the two free-form contract-upgrade payloads are only checked for module, action and byte-exact code; the contracts' semantic checks on values (e.g. length > 0, remote chain != local chain); gRPC transport; several messages in one request",
    "assumptions": ["hex.DecodeString / common.IsHexAddress / common.HexToAddress on rendered hex digits modelled as the inverse of the injective nibble rendering",
                    "encoding/binary.Write model; bytes.Buffer executed; zap no-op; proto String() opaque",
                    "cmd/guardiand is loaded through the stripped-p2p.Run overlay"],
}
CHECKS["C17"] = {
    "runs": [
        {"pkg": "./cmd/guardiand", "entry": "VerifC17_Dispatch", "reach": ["forwarded", "not-forwarded", "end"], "opts": {"z3": "z3-new"},
         "shards": {"quick": ["K=1,2", "K=3;advance#0=0", "K=3;advance#0=1", "K=3;advance#0=2", "K=3;advance#0=3"],
                    "thorough": ["K=1,2,3"] + ["K=4;advance#0=%d;ev#0=0;advance#1=%d" % (a, b) for a in (0, 1, 2) for b in (0, 1, 2)] + ["K=4;advance#0=3;ev#0=1;advance#1=%d" % b for b in (0, 1, 2, 3)]},  # request-first K=4 shards with the other first advances: ~160k paths each, several died without a result when 13 ran at once - not registered
         "timeout": {"quick": 2400, "thorough": 30000}},
        {"pkg": "./cmd/guardiand", "entry": "VerifC17_PostRace", "reach": ["end"], "opts": {"z3": "z3-new"}},
    ],
    "bounds": {"quick": {"post race": "two concurrent callers of PostObservationRequest on a queue with 0, 1 or 2 free slots; every interleaving at the granularity of channel operations (pre-emption before send/len/cap/select)", "histories": "the real dispatcher goroutine driven through its channels for K <= 3 events; each event = clock advance of 0, 6 min, 8 min 30 s or 11 min 1 s, then a purge tick or a request with ANY 32-bit chain id (2 and 255 have watchers) and ANY transaction hash byte; watcher queues of capacity 1 drained or left as they are before each request",
                         "unwind": 3000},
               "thorough": {"histories": "K <= 3; K = 4 when the first event is a purge tick (first two advances from 0, 6 min, 11 min 1 s), or a request after an 8 min 30 s advance"}},
    "outside": "other clock advances than the four listed; transaction hashes longer than two bytes (the cache key is the hex of the whole hash); more than two watcher queues; pre-emption inside the dispatcher (it is a single goroutine reading its channels); cooperative scheduling: the harness hands over at Settle() points",
    "assumptions": ["cooperative goroutine model: one goroutine runs until it blocks; channels are FIFO queues (an unbuffered channel is modelled as a one-slot hand-off queue)",
                    "context.WithCancel modelled as {done channel, err}; the clock.Clock interface is implemented by the harness (native replay uses the same implementation)"],
}
CHECKS["C20"] = {
    "runs": [
        {"pkg": "./cmd/spy", "entry": "VerifC20_Delivery", "reach": ["delivered", "filtered", "end", "send-failed"], "opts": {"z3": "z3-new"}, "allow_blocked": True,
         "shards": {"quick": ["nsub=1", "nsub=2;nvaa=1;nfilters#0=0", "nsub=2;nvaa=1;nfilters#0=1", "nsub=2;nvaa=1;nfilters#0=2", "nsub=2;nvaa=2;nfilters=0,1;stalledSub=9;failSub=9", "nsub=2;nvaa=2;nfilters=0,1;stalledSub=9;failSub=0,1", "nsub=2;nvaa=3;nfilters=0,1;stalledSub=9;v.chain=0;failSub=9", "nsub=2;nvaa=3;nfilters=0,1;stalledSub=9;v.chain=0;failSub=0,1", "nsub=2;nvaa=3;stalledSub=0;nfilters=0,1", "nsub=2;nvaa=3;stalledSub=1;nfilters=0,1"],
                    "thorough": ["nsub=1", "nsub=2;failSub=9", "nsub=2;nvaa=2;nfilters=0,1;stalledSub=9;failSub=0,1", "nsub=2;nvaa=3;nfilters=0,1;stalledSub=9;v.chain=0;failSub=0,1"] + ["nsub=3;nvaa=%d;stalledSub=%d;nfilters=0,1;failSub=9" % (v, st) for v in (1, 2) for st in (9, 0, 1, 2)]},
         "timeout": {"quick": 2400, "thorough": 30000}},
    ],
    "bounds": {"quick": {"scenarios": "1..2 subscribers with 0..2 filters each (chain id and last address byte symbolic, filters may coincide; the first filter of the first subscriber may carry any 32-bit chain number outside 0..65535); 1..3 published VAAs with symbolic emitter chain and address byte; nobody or one subscriber stalled from the start (its Send never returns), or one subscriber whose connection is broken (its Send returns an error while its context is still live: the handler must return and the subscription be removed); afterwards a new subscription, its disconnect, and the disconnect of every draining subscriber",
                         "unwind": 3000},
               "thorough": {"scenarios": "3 subscribers with 0..1 filters each and 1..2 published VAAs"}},
    "outside": "pre-emptive interleavings inside Publish / SubscribeSignedVAA (the scheduler is cooperative: a goroutine runs until it blocks); gRPC transport; delivery multiplicity (a subscriber with two matching filters is sent the VAA twice today - recorded, not asserted); map iteration order other than insertion order",
    "assumptions": ["cooperative goroutine model; sync.Mutex with blocking Lock; buffered channels as FIFO queues", "uuid.New() returns fresh distinct ids; context model; gRPC stream = harness fake (draining / stalled)"],
}
CHECKS["C19"] = {
    "runs": [
        {"mod": "explorer-backend", "pkg": "./processor", "entry": "VerifC19_Gate", "reach": ["accepted", "rejected", "handoff-failed"], "opts": {"exactfmt": "true", "z3": "z3-new"},
         "shards": {"quick": ["nsets=1", "nsets=2;nsig=0,1", "nsets=2;nsig=2", "nsets=2;nsig=3;setsize#0=1,2", "nsets=2;nsig=3;setsize#0=3", "nsets=3;nsig=0,1,2;setsize=1,2"],
                    "thorough": ["nsets=1", "nsets=2;nsig=0,1", "nsets=2;nsig=2", "nsets=2;nsig=3"] + ["nsets=3;nsig=%d;named=%s" % (k, nm) for k in (0, 1, 2, 3) for nm in ("0", "1", "2", "3,70000")]},
         "timeout": {"quick": 2400, "thorough": 30000}},
        {"mod": "explorer-backend", "pkg": "./guardiansets", "entry": "VerifC19_Appends", "reach": ["end"], "opts": {"z3": "z3-new"}},
        {"mod": "explorer-backend", "pkg": "./guardiansets", "entry": "VerifC19_LookupDuringAppend", "reach": ["end", "served"], "opts": {"z3": "z3-new"}},
        {"mod": "explorer-backend", "pkg": "./guardiansets", "entry": "VerifC19_ConcurrentAppends", "reach": ["end"], "opts": {"z3": "z3-new"}},
        {"mod": "explorer-backend", "pkg": "./guardiansets", "entry": "VerifC19_FetchFuture", "reach": ["end", "served", "refused"], "opts": {"z3": "z3-new", "hookfiles": "guardiansets/gst_data.go:GuardianSets"}},
    ],
    "bounds": {"quick": {"gate": "1..3 known guardian sets of 1..3 keys (set i has index i); VAA naming index 0..3 or 70000, signed by 0..3 keys of any one known set (so: the named set, or ANOTHER set) with symbolic index bytes; body symbolic with one-digit chain ids/sequence; persistence queue (capacity 1) empty or full; then the same VAA again",
                         "appends": "1..3 known sets, then 1..2 appends of a contiguous batch [from..to] with symbolic bounds (to <= 6, from <= first unknown index, any overlap)",
                         "concurrent appends": "1..2 known sets, two updaters delivering batches of 1..2 new sets concurrently, pre-empted before every mutex operation",
                         "future index": "1..2 known sets, lookup of an index 1..2 ahead: the chain walk (hooked scenario function) returns the range asked for or one set fewer, while the periodic refresh appends 0..3 sets during the call",
                         "lookup during append": "1..2 known sets, append of 1..2 sets, one lookup of index 0..3 forked after EVERY store the append performs to the shared object, and once afterwards"},
               "thorough": {"gate": "3 sets with up to 3 signatures"}},
    "outside": "more than one concurrent reader or writer; weak-memory reorderings and everything else only the race detector can tell (the interleaving is sequentially consistent, at the granularity of the writer's stores); the chain walk itself (getGuardianSetsRange is replaced by a scenario function in the future-index entry; elsewhere the model has no network and the walk fails, as it does natively with an empty RPC URL); explorer-backend links the node module from the module cache (vaa.VerifySignatures / CalculateQuorum of that copy are what is executed)",
    "assumptions": ["ecrecover/keccak model (DESIGN 4)", "dedup cache = harness map behind the gocache interface", "ethclient.Dial fails (no network)",
                    "fmt %d exact rendering for the message id (one-digit operands)"],
}
_ALPH_OPTS = {"z3": "z3-new", "clockfiles": "pkg/alephium/watcher.go,pkg/alephium/reobserve.go", "hookfiles": "pkg/alephium/client.go:Client"}
CHECKS["C08"] = {
    "runs": [
        {"pkg": "./pkg/alephium", "entry": "VerifC08_Confirmed", "reach": ["confirmed", "unconfirmed"], "opts": _ALPH_OPTS},
        {"pkg": "./pkg/alephium", "entry": "VerifC08_Polling", "reach": ["forwarded", "end", "watcher-error"], "opts": _ALPH_OPTS,
         "shards": {"quick": ["mainnet=%d;ticks=%s;events=%s" % (m, t, e) for m in (0, 1) for (t, e) in (("1", "1,2"), ("2", "1"))] +
                             ["mainnet=0;ticks=2;events=2;bridge#0=%d;bridge#1=%d;apiError#0=%d" % (b0, b1, a) for b0 in (0, 1) for b1 in (0, 1) for a in (0, 1)],
                    "thorough": ["mainnet=%d;ticks=%s;events=%s" % (m, t, e) for m in (0, 1) for (t, e) in (("1", "1,2,3"), ("2", "1"), ("3", "1"))] +
                                ["mainnet=%d;ticks=2;events=2;bridge#0=%d;bridge#1=%d;apiError#0=%d;kind=1,2" % (m, b0, b1, a) for m in (0, 1) for b0 in (0, 1) for b1 in (0, 1) for a in (0, 1)]},
         "timeout": {"quick": 2400, "thorough": 30000}},
        {"pkg": "./pkg/alephium", "entry": "VerifC08_Reobserve", "reach": ["forwarded", "nothing-forwarded"], "opts": _ALPH_OPTS,
         "shards": {"quick": ["mainnet=0;txevents=0,1", "mainnet=1;txevents=0,1", "mainnet=0;txevents=2;failAt=0", "mainnet=1;txevents=2;failAt=0", "mainnet=1;txevents=2;failAt=1,2,3,4,5;cl=1"],
                    "thorough": ["mainnet=%d;txevents=%s" % (m, t) for m in (0, 1) for t in ("0,1", "2")]},
         "timeout": {"quick": 2400, "thorough": 30000}},
        # "the polling path forwards each fetched event at most once": the fetch loop against a growing log (shared with C09)
        {"pkg": "./pkg/alephium", "entry": "VerifC09_Fetch", "reach": ["delivered", "end"], "opts": _ALPH_OPTS,
         "shards": {"quick": ["logsize=1;emptyPayload=0", "logsize=2;mc=0;kind=0;emptyPayload=0"]}},
        {"pkg": "./pkg/alephium", "entry": "VerifC08_Attest", "reach": ["attestation-kept", "attestation-dropped"], "opts": _ALPH_OPTS,
         "shards": {"quick": ["plen=99,101", "plen=100;alphToken=1"] + ["plen=100;alphToken=0;path=%d;cdec=%s" % (pa, c) for pa in (0, 1) for c in ("8", "0,18", "255,256")]}},
    ],
    "bounds": {"quick": {"attestation": "one attestation event on the polling path (handleUnconfirmedEvents) or the re-observation path (getGovernanceEventsByTxId): payload length 99/100/101, token chain id, decimals byte, 4 symbol bytes and 2 name bytes symbolic, ALPH token or a token contract in a symbolic group; the token contract reports 4 symbolic symbol bytes, 2 symbolic name bytes and one of the decimals numerals 0, 8, 18, 255, 256",
                         "predicate": "isEventConfirmed for every height/timestamp/clock/consistency level/network/payload kind (heights < 2^30, times < 2^52 ms)",
                         "fetch": "the fetch loop with a log of 1..2 bridge events that grows at arbitrary calls, page size 1..3 (each event handed on at most once)",
                         "polling": "one batch of 1..2 events in two blocks (consistency level, payload kind symbolic; bridge or foreign caller) and 1..2 height ticks (mainnet: two events with one tick, one event with two ticks); per tick: arbitrary chain height, arbitrary canonicity of each block (reorg out and back in), arbitrary non-decreasing clock, optional node API failure",
                         "re-observation": "one request; node answers: tx confirmed or pending, 0..2 events each {governance contract | other contract, event index 0|1, bridge | foreign caller, transfer | other payload, consistency level 0|1|10}, symbolic block height/timestamp/current height, canonical or orphaned, failure of any one of the five node calls"},
               "thorough": {"polling": "up to 3 events and 3 ticks"}},
    "outside": "the HTTP client and the SDK's JSON decoding (every Client method is replaced, in both builds, by a scenario function through a mechanically inserted hook prologue); real tickers; symbols longer than 4 and names longer than 2 bytes in the attestation entry; the base58 rendering of the token contract address (opaque); more than one re-observation request; int32 wrap of heights above 2^30",
    "assumptions": ["cooperative goroutines; channels as FIFO queues", "clock: time.Now() in watcher.go/reobserve.go redirected to the harness clock; UnixMilli of a clock reading is its own non-decreasing variable",
                    "encoding/json.Marshal (log fields) opaque; zap/prometheus no-ops; pkg/alephium loaded through the stripped-p2p.Run overlay"],
}
# C11 on the re-observation path: every event of the transaction is decoded from ITS OWN fields (two events in one transaction)
CHECKS["C11"]["runs"].append({"pkg": "./pkg/alephium", "entry": "VerifC08_Reobserve", "reach": ["forwarded", "nothing-forwarded"], "opts": _ALPH_OPTS,
                              "shards": {"quick": ["mainnet=0;txevents=2;failAt=0"]}, "timeout": {"quick": 2400, "thorough": 30000}})
CHECKS["C11"]["bounds"]["quick"]["re-observation"] = "C08's re-observation harness with two events in the transaction (testnet, no API failure): each forwarded message carries the fields of its own event"
CHECKS["C09"] = {
    "runs": [
        {"pkg": "./pkg/alephium", "entry": "VerifC09_Fetch", "reach": ["delivered", "skipped", "end"], "opts": _ALPH_OPTS,
         "shards": {"quick": ["logsize=1", "logsize=2;mc=0", "logsize=2;mc=1,2;kind=0,4", "logsize=2;mc=3,4;kind=0,4"] + ["logsize=3;mc=0;kind=0,2;initial=%d;pagesize=%d" % (i, p) for i in (0, 1) for p in (1, 2)],
                    "thorough": ["logsize=1", "logsize=2"] + ["logsize=3;mc=%d;kind#0=%d" % (m, k) for m in (0, 1, 4) for k in range(5)]},
         "timeout": {"quick": 2400, "thorough": 30000}},
        # the hand-over from fetched to confirmed: junk (foreign-caller) events next to pending bridge events never stop the loop
        {"pkg": "./pkg/alephium", "entry": "VerifC08_Polling", "reach": ["forwarded", "end"], "opts": _ALPH_OPTS,
         "shards": {"quick": ["mainnet=0;ticks=1;events=1,2", "mainnet=0;ticks=2;events=2;bridge#0=0;bridge#1=1;apiError=0", "mainnet=0;ticks=2;events=2;bridge#0=1;bridge#1=0;apiError=0"]},
         "timeout": {"quick": 2400, "thorough": 30000}},
    ],
    "bounds": {"quick": {"hand-over": "C08's polling harness with a foreign-caller event next to a bridge event (no API errors): the loop keeps running", "fetch": "the real fetchEvents goroutine, three polls, against a log of 1..3 events whose kinds are {bridge, foreign caller, wrong field count, out-of-range number, attestation-shaped naming a contract whose three metadata calls succeed / fail in each position / return one result}; 0..1 events exist at start; every other event becomes visible at an arbitrary call (count or page); page size 1..3 chosen per request",
                         "unwind": 3000},
               "thorough": {"fetch": "all kind combinations for 3 events"}},
    "outside": "node API errors (they legitimately end the loop; covered in C08's polling/re-observation harnesses); the hand-over from fetched to confirmed (C08 polling harness); supervisor restarts (C18); HTTP and JSON layers (hooked Client methods)",
    "assumptions": CHECKS["C08"]["assumptions"] + ["time.NewTicker in watcher.go redirected to a harness ticker that fires when the harness says so"],
}
_EVM_OPTS = {"z3": "z3-new", "hookfiles": "pkg/ethereum/connector.go:func,pkg/ethereum/poller.go:*", "clockfiles": "pkg/ethereum/watcher.go"}
CHECKS["C10"] = {
    "runs": [
        {"pkg": "./pkg/ethereum", "entry": "VerifC10_Main", "reach": ["forwarded", "dropped", "still-pending", "end"], "opts": _EVM_OPTS,
         "shards": {"quick": ["waitForConfirmations=1;heads=1", "waitForConfirmations=0;heads=1", "waitForConfirmations=1;heads=2", "waitForConfirmations=0;heads=2"]}},
        {"pkg": "./pkg/ethereum", "entry": "VerifC10_Reobserve", "reach": ["forwarded", "nothing-forwarded"], "opts": _EVM_OPTS},
        {"pkg": "./pkg/ethereum", "entry": "VerifC10_Two", "reach": ["forwarded", "dropped", "both-still-pending", "end"], "opts": _EVM_OPTS,
         "shards": {"quick": ["waitForConfirmations=1;heads=1", "waitForConfirmations=0;heads=1"],
                    "thorough": ["waitForConfirmations=%d;heads=1;oneBlock=%d" % (w, o) for w in (0, 1) for o in (0, 1)]}},  # two heads with two pending messages did not finish in 13 min (no result): not registered
    ],
    "bounds": {"quick": {"primary path": "the real Watcher.Run service loops; one subscription log at any height < 2^40 with any consistency level; 1..2 head events with any number < 2^41, safe or not; per head the receipt lookup answers nil / ErrNoResult / \"not found\" / another error / a receipt with any status in the same or another block; both confirmation modes",
                         "re-observation": "one request; the node's latest block number (eth_blockNumber) at or beyond the head of the configured finality; head read (any value, or failing) then a receipt (or failure) with any status, any block number and 0..2 logs, each from the core contract or another address, with the message topic or another one, any consistency level"},
               "thorough": {}},
    "outside": "the websocket dial, the block poller's timing and go-ethereum's abi log decoding (NewEthereumConnector, NewBlockPollConnector, BlockPollConnector.getBlock/SubscribeForBlocks are replaced through hook prologues in both builds; ParseLogMessagePublished returns the scripted fields); more than one pending message; more than two heads; guardian-set polling",
    "assumptions": ["cooperative goroutines; sync.Mutex with blocking Lock; context model", "math/big.Int model for block numbers (SetUint64/Uint64/Int64)",
                    "the connector is a harness implementation of the package's Connector interface (same code natively and symbolically)"],
}
CHECKS["C18"] = {
    "runs": [
        {"pkg": "./pkg/supervisor", "entry": "VerifC18_Died", "reach": ["done-stays-done", "canceled", "dead"], "opts": {"z3": "z3-new"}},
        {"pkg": "./pkg/supervisor", "entry": "VerifC18_GC", "reach": ["rescheduled", "nothing-to-restart"], "opts": {"z3": "z3-new"},
         "shards": {"quick": ["shape=0,1,2,3", "shape=4", "shape=5", "shape=6"]}},
        {"pkg": "./pkg/supervisor", "entry": "VerifC18_KillAndWrapper", "reach": ["end", "scheduled-after-cancellation"], "opts": {"z3": "z3-new"}},
        {"pkg": "./pkg/supervisor", "entry": "VerifC18_Loop", "reach": ["end", "restarted", "restart-waited"], "opts": {"z3": "z3-new", "clockfiles": "pkg/supervisor/supervisor_processor.go"},
         "shards": {"quick": ["ticks=2"], "thorough": ["ticks=2", "ticks=3;withChild=0", "ticks=3;withChild=1"]}},
    ],
    "bounds": {"quick": {"loop": "the REAL processor loop (New, processor, processSchedule, processDied, processGC, processKill, Run, Signal) with cooperative goroutines and a harness-fired scan ticker: a root service, optionally with one child; the first two instances of the root and of the child each behave in one of up to seven ways (return nil / error / panic / healthy until cancelled / done / healthy with wrapped context error / slow to stop after cancellation); two scans (three when a restart has to wait for a slow child), then cancellation of the supervisor's context",
                         "decisions": "the supervisor's sequential decision procedures on the real code - processDied, processGC (run twice), processKill, the start wrapper of processSchedule - over all seven tree shapes with <= 4 nodes and depth <= 3 (single child, grouped and ungrouped siblings, chains, a child with grouped children); every node's state symbolic (5 states; DEAD/CANCELED with cancelled context, as the supervisor itself produces them); death messages nil / context.Canceled / wrapped context.Canceled / other error; service exits: nil, error, panic (panic capture on); a schedule request for a node whose context was cancelled during its back-off still ends in a state the restart scan can work with; the rescheduling goroutines sleep (yield) before they read what they send"},
               "thorough": {"loop": "three scans, a third instance of the root that runs or panics"}},
    "outside": "PARTIAL (DESIGN 7): pre-emptive interleavings of the processor with running services (the loop entry runs them cooperatively: a goroutine runs until it blocks), the 1 ms scan timing, back-off durations (arbitrary in the model) and everything only the race detector can tell are outside; 'never two instances at once' is decided through the scan's precondition (only fully stopped subtrees are rescheduled, nothing is scheduled twice) given that DEAD/CANCELED are only written after the service function returned (start wrapper harness)",
    "assumptions": ["context model (derived contexts with parent links, cancellation propagation, values)", "backoff.NextBackOff returns an arbitrary non-negative duration; time.Sleep is a no-op; regexp name check always passes",
                    "cooperative goroutines for the start wrapper and the rescheduling goroutines", "fmt.Errorf with %w builds a real *fmt.wrapError"],
}

# generated harness parts per (module, package): regenerated from /repo on every run for every check that loads the package
GENERATORS = {("node", "./pkg/vaa"): [_gen_c04], ("node", "./pkg/processor"): [_gen_c07], ("node", "./pkg/alephium"): [_gen_c11], ("node", "./cmd/guardiand"): [_gen_c15]}


# ---- level texts for checks whose claim is deliberately narrower than the property statement ----
_BASE_LEVEL = "Bounded symbolic execution of the real functions; an SMT solver decides the assertions for every value inside the stated bounds; silent outside them."
CHECKS["C07"]["level_text"] = "Symbolic execution of CalculateQuorum (node, and the copy the explorer links) for a symbolic n over the whole domain 0..255 - exhaustive for the property's domain - and solver comparison with the formulas extracted from the Solidity and Ralph contracts and with the conditions under which the two contracts apply them (symbolic signature count 0..255)."
CHECKS["C17"]["level_text"] = _BASE_LEVEL + " Schedules: cooperative goroutines with pre-emption explored before every channel/mutex operation of the two posters; no weak-memory effects."
CHECKS["C18"]["level_text"] = "PARTIAL: bounded symbolic execution of (a) the supervisor's sequential decision procedures (death classification, restart scan, kill, start wrapper) from arbitrary node states of trees with up to 4 nodes and (b) the real processor loop with a root and one child service under cooperative scheduling (every combination of seven per-instance behaviours, two scans, then cancellation); pre-emptive interleavings, scan timing and back-off durations are not decided."
CHECKS["C19"]["level_text"] = _BASE_LEVEL + " Concurrency: a lookup is forked after every store of the appending writer (sequentially consistent interleavings at store granularity); weak-memory effects and the race detector's verdict are outside."
CHECKS["C20"]["level_text"] = _BASE_LEVEL + " Concurrency: cooperative scheduler (blocking = no runnable goroutine); one open known finding (C20-n)."
