"""Per-property check specifications (entries, shards, bounds text). See DESIGN.md §6."""
import os

CHECKS = {}

CHECKS["C07"] = {
    "runs": [
        {"pkg": "./pkg/processor", "entry": "VerifC07_Quorum", "reach": ["end"]},
    ],
    "exhaustive": True,
    "bounds": {"n": "0..255 (symbolic; the property's whole domain)"},
    "outside": "nothing: n ranges over the wire format's one-byte guardian count",
    "assumptions": [],
}

CHECKS["C05"] = {
    "runs": [
        {"pkg": "./pkg/vaa", "entry": "VerifC05_RoundTrip", "reach": ["end"],
         "shards": {"quick": ["nsig=0", "nsig=1", "nsig=2"], "thorough": ["nsig=0", "nsig=1", "nsig=2"]}},
        {"pkg": "./pkg/vaa", "entry": "VerifC05_Decode", "reach": ["accepted", "rejected"]},
    ],
    "bounds": {},
    "outside": "",
    "assumptions": ["encoding/binary.Read/Write modelled as big-endian bytes of the static fixed-size type (DESIGN §4.2)",
                    "Keccak-256 as an uninterpreted function per input length"],
}

CHECKS["C06"] = {
    "runs": [
        {"pkg": "./pkg/vaa", "entry": "VerifC06_Verify", "reach": ["accepted", "rejected"],
         "shards": {"quick": ["n=0", "n=1", "n=2;k=0,1", "n=2;k=2"]}},
    ],
    "bounds": {},
    "outside": "",
    "assumptions": ["ecrecover model: registered (digest,signature) pairs recover to their key; anything else fails or recovers to an address outside the honest keys (existential unforgeability)",
                    "Keccak-256 as an uninterpreted function per input length"],
}
