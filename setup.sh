#!/bin/sh
# Build the symbolic executor from the sources in /verif/engine (offline; x/tools v0.29.0 from the module cache).
set -e
cd "$(dirname "$0")"
export GOFLAGS=-mod=mod GOPROXY=off GOSUMDB=off GOTOOLCHAIN=local
mkdir -p .work/bin evidence
(cd engine && go build -o ../.work/bin/symgo .)
echo "symgo built"
