#!/usr/bin/env python3
"""mkprompt.py <PROP> <worktree> [n] [extra sentence...] -> writes /root/wt-tools/prompt_<tag>.txt (property text + worktree only)"""
import json, os, sys
V = os.path.dirname(os.path.dirname(os.path.abspath(__file__)))
pid, wt = sys.argv[1], sys.argv[2]
n = int(sys.argv[3]) if len(sys.argv) > 3 else 2
extra = " ".join(sys.argv[4:])
props = {json.loads(l)["id"]: json.loads(l) for l in open(os.path.join(V, "properties.jsonl"))}
p = props[pid]
T = open(os.path.join(V, "seedtools/prompt.tmpl")).read()
s = T.format(wt=wt, title=p["title"], statement=p["statement"], quant=p["quantifier"]["text"], pid=pid, n=n)
if extra:
    s += "\n" + extra + "\n"
out = "/root/wt-tools/prompt_%s.txt" % os.path.basename(wt)
open(out, "w").write(s)
print(out)
