package main

import (
	"fmt"
	"os"
	"path/filepath"
)

// usage: stripp2p <worktree-root>
// Writes <root>/node/.overlay/p2p_stripped.go and <root>/node/.overlay/overlay.json so that the packages that import
// pkg/p2p (p2p, alephium, ethereum, cmd/guardiand, cmd/spy) build with the installed Go:
//   cd <root>/node && go test -overlay .overlay/overlay.json ./pkg/alephium/...
func main() {
	root := os.Args[1]
	dir := filepath.Join(root, "node", ".overlay")
	os.MkdirAll(dir, 0755)
	src := filepath.Join(root, "node/pkg/p2p/p2p.go")
	dst := filepath.Join(dir, "p2p_stripped.go")
	if err := stripRun(src, dst); err != nil {
		fmt.Println("error:", err)
		os.Exit(1)
	}
	ov := fmt.Sprintf("{\"Replace\": {%q: %q}}\n", src, dst)
	os.WriteFile(filepath.Join(dir, "overlay.json"), []byte(ov), 0644)
	fmt.Println("wrote", filepath.Join(dir, "overlay.json"))
}
