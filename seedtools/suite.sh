#!/bin/sh
# usage: suite.sh <worktree> <module> -> prints "pkg status" lines (package-level results of the module's test suite)
export GOFLAGS=-mod=mod GOPROXY=off GOSUMDB=off GOTOOLCHAIN=local
T=$(dirname "$0")
cd "$1/$2" || exit 2
go test -vet=off -count=1 -timeout 25m ./... 2>&1 | grep -E "^(ok|FAIL|---|\?)" | sed -E 's/\t[0-9.]+s$//; s/\(cached\)//; s/ +[0-9.]+s$//' | grep -E "^(ok|FAIL)" | awk '{print $1, $2}' | sort -u
if [ "$2" = "node" ]; then
  $T/stripp2p/stripp2p "$1" >/dev/null
  go test -vet=off -count=1 -overlay .overlay/overlay.json ./pkg/p2p/ ./pkg/alephium/ ./pkg/ethereum/ ./cmd/guardiand/ ./cmd/spy/ 2>&1 | grep -E "^(ok|FAIL)" | awk '{print "overlay", $1, $2}' | sort -u
  rm -rf .overlay
fi
