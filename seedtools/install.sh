#!/bin/sh
# installs the seeding helpers OUTSIDE /verif (sub-agents must not read /verif): /root/wt-tools
set -e
V=$(cd "$(dirname "$0")/.." && pwd)
D=/root/wt-tools
mkdir -p $D/stripp2p
cp $V/seedtools/stripp2p/main.go $V/engine/strip.go $D/stripp2p/
printf 'module stripp2p\ngo 1.23\n' > $D/stripp2p/go.mod
(cd $D/stripp2p && GOFLAGS=-mod=mod GOPROXY=off GOTOOLCHAIN=local go build -o stripp2p .)
cp $V/seedtools/suite.sh $D/suite.sh
echo installed $D
