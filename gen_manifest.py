#!/usr/bin/env python3
"""Regenerates MANIFEST.json from checks.py (claimed checks) and NOT_APPLICABLE below."""
import json, os, sys
ROOT = os.path.dirname(os.path.abspath(__file__))
sys.path.insert(0, ROOT)
import checks

NOT_APPLICABLE = {
    "C16": "crash durability of acknowledged writes is a property of badger's value log/LSM and the kernel under SIGKILL; the only /repo code involved is one db.Update(txn.Set) call, so there is nothing solver-based symbolic execution of /repo code could encode (a model of badger would verify the model). DESIGN.md section 7.",
}
PENDING = "check not built yet in this round (solver-based harness pending; see DESIGN.md section 10 build order)"

ALL = ["C%02d" % i for i in range(1, 21)]

TECH = "bounded symbolic execution of the real Go code (own go/ssa executor 'symgo') with SMT (z3) deciding every path's assertions; counterexamples replayed natively"


def main():
    m = {
        "version": 1,
        "setup_cmd": "./setup.sh",
        "hooks": {
            "guard": "overlay (go build -overlay / packages.Config.Overlay; no source commits in /repo)",
            "enable": "checks inject harness files, the zzverif API package and a stripped copy of pkg/p2p/p2p.go (body of Run removed; quic-go does not build with the installed Go) through -overlay, generated under /verif/.work from /repo's working tree on every run",
            "baseline_off_cmd": "for m in node explorer-backend explorer-api-server clients/eth; do (cd /repo/$m && GOFLAGS=-mod=mod go test -vet=off -count=1 -timeout 25m ./...); done",
            "source_commits": [],
            "add_only": True,
        },
        "engines": [{"name": "symgo", "path": "engine/", "serves_properties": sorted(checks.CHECKS),
                     "kind_free_text": "KLEE-style path-forking symbolic executor over golang.org/x/tools/go/ssa (v0.29.0) written for this task; SMT-LIB2 to z3 4.8.12 or z3 5.1.0 (incremental pipe, per entry) with z3 5.1.0 in a fresh context as fallback and cvc5 1.0 as cross-check solver on a sample of assertion queries; counterexamples and sample passing paths are replayed natively; environment models listed per check in the evidence"}],
        "checks": [],
        "not_applicable": [],
        "notes": "Every check: ./check <ID> --tier quick|thorough. Exit 0 held / only known findings, 1 new violation (VIOLATION line, replay dir), 2 inconclusive. known_findings.json lists genuine defects (open = KNOWN-FINDING lines, fixed = repaired by a fix: commit in /repo).",
    }
    for pid in ALL:
        if pid in checks.CHECKS:
            c = checks.CHECKS[pid]
            m["checks"].append({
                "property_id": pid,
                "quick_cmd": "./check %s --tier quick" % pid,
                "thorough_cmd": "./check %s --tier thorough" % pid,
                "evidence_file": "evidence/%s.json" % pid,
                "replay_cmd_template": "./check %s --replay {path}" % pid,
                "engine": "symgo",
                "level_claimed": {"category": "model_checking",
                                  "text": c.get("level_text", "Bounded symbolic execution of the real functions; an SMT solver decides the assertions for every value inside the stated bounds; silent outside them."),
                                  "design_ref": "DESIGN.md section 6 / " + pid},
                "level_note": c.get("level_note", "; ".join(c.get("assumptions", [])) or "see evidence.assumptions"),
                "technique": c.get("technique", TECH),
            })
        else:
            m["not_applicable"].append({"property_id": pid, "reason": NOT_APPLICABLE.get(pid, PENDING)})
    with open(os.path.join(ROOT, "MANIFEST.json"), "w") as f:
        json.dump(m, f, indent=1)
    print("MANIFEST.json: %d checks, %d not applicable" % (len(m["checks"]), len(m["not_applicable"])))


if __name__ == "__main__":
    main()
