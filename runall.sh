#!/bin/sh
# runs every claimed check once (tier = $1, default quick; optional further arguments: the check ids to run, in order)
# on the repository (VERIF_REPO, default /repo) and prints one line per check
tier=${1:-quick}
[ $# -gt 0 ] && shift
cd "$(dirname "$0")"
mkdir -p .work
ids="$*"
[ -z "$ids" ] && ids=$(python3 -c "import checks; print(' '.join(sorted(checks.CHECKS)))")
for id in $ids; do
  start=$(date +%s)
  ./check $id --tier $tier > .work/runall.$id.out 2>&1
  rc=$?
  echo "$id rc=$rc $(( $(date +%s) - start ))s $(tail -1 .work/runall.$id.out | cut -c1-160)"
done
