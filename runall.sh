#!/bin/sh
# runs every claimed check once (tier = $1, default quick) on /repo and prints one line per check
tier=${1:-quick}
cd "$(dirname "$0")"
for id in $(python3 -c "import checks; print(' '.join(sorted(checks.CHECKS)))"); do
  start=$(date +%s)
  ./check $id --tier $tier > .work/runall.$id.out 2>&1
  rc=$?
  echo "$id rc=$rc $(( $(date +%s) - start ))s $(tail -1 .work/runall.$id.out | cut -c1-160)"
done
