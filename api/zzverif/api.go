// Package zzverif is the harness API. This file is the native (replay) implementation;
// the symbolic executor intercepts every function here.
package zzverif

import (
	"crypto/ecdsa"
	"encoding/json"
	"fmt"
	"math/big"
	"os"
	"runtime"
	"time"

	"github.com/ethereum/go-ethereum/crypto"
)

var assignment map[string][]uint64
var cursor = map[string]int{}

func load() {
	if assignment != nil {
		return
	}
	assignment = map[string][]uint64{}
	if p := os.Getenv("VERIF_ASSIGNMENT"); p != "" {
		b, err := os.ReadFile(p)
		if err == nil {
			_ = json.Unmarshal(b, &assignment)
		}
	}
}

func next(name string) uint64 {
	load()
	vs := assignment[name]
	i := cursor[name]
	cursor[name] = i + 1
	if i < len(vs) {
		return vs[i]
	}
	return 0
}

func U8(name string) uint8   { return uint8(next(name)) }
func U16(name string) uint16 { return uint16(next(name)) }
func U32(name string) uint32 { return uint32(next(name)) }
func U64(name string) uint64 { return next(name) }
func I64(name string) int64  { return int64(next(name)) }
func I32(name string) int32  { return int32(next(name)) }
func Bool(name string) bool  { return next(name) != 0 }

func Bytes(name string, n int) []byte {
	load()
	b := make([]byte, n)
	k := cursor[name+"[]"]
	cursor[name+"[]"] = k + 1
	vs := assignment[fmt.Sprintf("%s[]#%d", name, k)]
	for i := range b {
		if i < len(vs) {
			b[i] = byte(vs[i])
		}
	}
	return b
}

// Blob is Bytes carried as one wide solver variable (same native behaviour).
func Blob(name string, n int) []byte {
	load()
	k := cursor[name+"[]"]
	b := Bytes(name, n)
	if ref, ok := assignment[fmt.Sprintf("%s[]#%d@addr", name, k)]; ok && n == 20 && len(ref) == 1 {
		a := AddrOf(int(ref[0])) // the counterexample chose "the address of honest key i"
		copy(b, a[:])
	}
	return b
}

// BlobLike is Blob with candidates: byte strings the counterexample may have chosen the blob to be EQUAL to (a digest,
// an address...). If the assignment says "equal to candidate i", the candidate's native bytes are returned.
func BlobLike(name string, n int, candidates ...[]byte) []byte {
	load()
	k := cursor[name+"[]"]
	b := Blob(name, n)
	if ref, ok := assignment[fmt.Sprintf("%s[]#%d@cand", name, k)]; ok && len(ref) == 1 && int(ref[0]) < len(candidates) && len(candidates[ref[0]]) == n {
		copy(b, candidates[ref[0]])
	}
	return b
}

// MalformedSig returns 65 bytes on which ecrecover fails for every digest: r = 0, other bytes from the assignment.
func MalformedSig(name string) []byte {
	b := Bytes(name, 65)
	for i := 0; i < 32; i++ {
		b[i] = 0
	}
	return b
}

// Now is the harness clock: the k-th reading is a fixed base plus the k-th monotonic nanosecond value of the assignment (now.mono), the real clock otherwise.
// Source files named with -clockfiles read the clock through it (time.Now() / time.Since( rewritten mechanically).
func Now() time.Time {
	load()
	if vs, ok := assignment["now.ms"]; ok { // paths that read the clock through UnixMilli: millisecond readings
		if cursor["now.ms"] >= len(vs) {
			return time.UnixMilli(int64(vs[len(vs)-1]))
		}
		return time.UnixMilli(int64(next("now.ms")))
	}
	if vs, ok := assignment["now.mono"]; ok {
		base := time.Unix(1700000000, 0)
		if cursor["now.mono"] >= len(vs) { // more readings than the counterexample recorded: the clock stands still
			return base.Add(time.Duration(vs[len(vs)-1]))
		}
		return base.Add(time.Duration(next("now.mono")))
	}
	return time.Now()
}

func Since(t time.Time) time.Duration { return Now().Sub(t) }

// Settle lets every other goroutine run until it blocks or finishes (symbolic build: exactly that, cooperatively;
// native build: a short sleep, repeated a few times to let chains of hand-offs complete).
func Settle() {
	for i := 0; i < 5; i++ {
		runtime.Gosched()
		time.Sleep(10 * time.Millisecond)
	}
}

// MustNotBlock runs f; natively with a 3 s deadline, symbolically a blocked state inside f (no goroutine can run) is
// reported as a violation "blocked".
func MustNotBlock(f func()) {
	done := make(chan struct{})
	var pv interface{}
	go func() {
		defer func() { pv = recover(); close(done) }()
		f()
	}()
	select {
	case <-done:
		if pv != nil {
			panic(pv)
		}
	case <-time.After(3 * time.Second):
		panic("VERIF-ASSERT blocked")
	}
}

// Preemptive switches exploration of pre-emptions at channel/mutex operations on or off (symbolic build only).
func Preemptive(on bool) {}

// Interleave (symbolic build): run w and, after every store w performs to pre-existing objects, also explore r running
// at that moment. Natively the harness provides its own stress loop; this just runs w then r.
func Interleave(w, r func()) { w(); r() }

// Hooks: scenario functions that stand in for methods of a node client (see symgo -hookfiles): key "Type.Method".
var Hooks = map[string]interface{}{}

// Tickers created through NewTicker (time.NewTicker redirected by -clockfiles): they fire only when the harness says so.
var Tickers []chan time.Time

func NewTicker(d time.Duration) *time.Ticker {
	ch := make(chan time.Time, 1)
	Tickers = append(Tickers, ch)
	return &time.Ticker{C: ch}
}

// Tick fires the i-th ticker once and lets the woken goroutine run until it blocks again.
func Tick(i int) {
	Tickers[i] <- time.Time{}
	Settle()
}

func Len(name string, opts ...int) int {
	load()
	if vs, ok := assignment[name]; ok {
		i := cursor[name]
		cursor[name] = i + 1
		if i < len(vs) {
			return int(vs[i])
		}
	}
	return opts[0]
}

// LenFromConsts is Len whose option list is extended, in the symbolic build, by boundary values derived from the
// integer constants of the named function (c-1, c, c+1, 2c). Natively the value comes from the assignment.
func LenFromConsts(name, fn string, base ...int) int { return Len(name, base...) }

// LenRange is Len over lo..hi.
func LenRange(name string, lo, hi int) int { return Len(name, lo) }

type skip struct{}

func Assume(c bool) {
	if !c {
		panic(skip{})
	}
}

func Assert(c bool, label string) {
	if !c {
		panic("VERIF-ASSERT " + label)
	}
}

func Reach(label string) {}

func NoPanic(f func()) {
	defer func() {
		if r := recover(); r != nil {
			if _, ok := r.(skip); ok {
				panic(r)
			}
			panic("VERIF-ASSERT panic")
		}
	}()
	f()
}

func key(i int) *ecdsa.PrivateKey {
	d := new(big.Int).SetInt64(int64(i) + 0x1234567)
	k, err := crypto.ToECDSA(crypto.Keccak256(d.Bytes()))
	if err != nil {
		panic(err)
	}
	return k
}

// AddrOf returns the Ethereum address of abstract key i.
func AddrOf(i int) [20]byte { return crypto.PubkeyToAddress(key(i).PublicKey) }

// SignBy signs the 32-byte digest with abstract key i.
func SignBy(i int, digest []byte) []byte {
	s, err := crypto.Sign(digest, key(i))
	if err != nil {
		panic(err)
	}
	return s
}

// PubKey returns the public key of abstract key i.
func PubKey(i int) ecdsa.PublicKey { return key(i).PublicKey }

// TempDir returns a fresh directory for a store.
func TempDir() string {
	d, err := os.MkdirTemp(os.Getenv("VERIF_TMP"), "zzverif") // VERIF_TMP: scratch directory of the replay (removed with it)
	if err != nil {
		panic(err)
	}
	return d
}

// Symbolic reports whether the harness runs inside the symbolic executor (false natively).
func Symbolic() bool { return false }

// AssumeCollisionFree: Keccak is injective on the pre-images hashed so far (symbolic build only).
func AssumeCollisionFree() {}
