// Supervised lives in its own file: harnesses of pkg/supervisor itself cannot import a package that imports
// pkg/supervisor, so the executor leaves this file out for them.
package zzverif

import (
	"context"

	"github.com/alephium/wormhole-fork/node/pkg/supervisor"
	"go.uber.org/zap"
)

// Supervised runs f with a context that belongs to a real supervisor tree (handlers call supervisor.Logger(ctx)).
func Supervised(f func(ctx context.Context)) {
	done := make(chan interface{}, 1)
	ctx, cancel := context.WithCancel(context.Background())
	defer cancel()
	supervisor.New(ctx, zap.NewNop(), func(ctx context.Context) error {
		defer func() { done <- recover() }()
		f(ctx)
		return nil
	}, supervisor.WithPropagatePanic)
	if r := <-done; r != nil {
		panic(r)
	}
}
