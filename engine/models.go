package main

import (
	"go/constant"
	"sort"
	"fmt"
	"time"
	"os"
	"go/types"
	"math/big"
		"strings"

	"golang.org/x/tools/go/ssa"
)

var pendingV = OpaqueV{"<pending>"}

func strArg(v Value) string {
	s, ok := v.(StringV).Concrete()
	if !ok {
		panic("harness string argument must be concrete")
	}
	return s
}

func (e *Engine) recordNondet(st *State, name, kind string, t *Term, many []*Term, shape int) {
	st.nondet = append(st.nondet, NondetRec{Name: name, Kind: kind, Term: t, Many: many, Shape: shape})
}

func (e *Engine) pinNext(name string) uint64 {
	if e.pinCursor == nil {
		e.pinCursor = map[string]int{}
	}
	i := e.pinCursor[name]
	e.pinCursor[name] = i + 1
	if vs := e.pinned[name]; i < len(vs) {
		return vs[i]
	}
	return 0
}

func (e *Engine) opaqueErr(tag string) Value {
	return IfaceV{T: opaqueType, V: OpaqueV{"err:" + tag}}
}

func init() {
	api := "zzverif."
	scalar := func(w int) Handler {
		return func(e *Engine, st *State, fn *ssa.Function, args []Value, retTo *ssa.Call) (Value, bool) {
			name := strArg(args[0])
			if e.pinned != nil {
				return ConstU(e.pinNext(name), w), true
			}
			t := st.fresh(name, BV(w))
			e.recordNondet(st, name, fmt.Sprintf("u%d", w), t, nil, 0)
			return t, true
		}
	}
	exact[api+"U8"] = scalar(8)
	exact[api+"U16"] = scalar(16)
	exact[api+"U32"] = scalar(32)
	exact[api+"U64"] = scalar(64)
	exact[api+"I64"] = scalar(64)
	exact[api+"I32"] = scalar(32)
	exact[api+"Bool"] = func(e *Engine, st *State, fn *ssa.Function, args []Value, retTo *ssa.Call) (Value, bool) {
		name := strArg(args[0])
		if e.pinned != nil {
			return ConstBool(e.pinNext(name) != 0), true
		}
		t := st.fresh(name, BoolSort)
		e.recordNondet(st, name, "bool", t, nil, 0)
		return t, true
	}
	exact[api+"Bytes"] = func(e *Engine, st *State, fn *ssa.Function, args []Value, retTo *ssa.Call) (Value, bool) {
		name := strArg(args[0])
		nT := args[1].(*Term)
		if !nT.IsConst() {
			e.unsupported_(st, "zzverif.Bytes with symbolic length")
			return nil, true
		}
		n := int(nT.Int64())
		bs := make([]*Term, n)
		if e.pinned != nil {
			k := e.pinCursor[name+"[]"]
			e.pinCursor[name+"[]"] = k + 1
			vs := e.pinned[fmt.Sprintf("%s[]#%d", name, k)]
			for i := range bs {
				var v uint64
				if i < len(vs) {
					v = vs[i]
				}
				bs[i] = ConstU(v, 8)
			}
			return st.newByteSlice(bs), true
		}
		base := st.fresh(name, BV(8)) // reserve the name; individual bytes are name[i]
		_ = base
		for i := range bs {
			bs[i] = Var(fmt.Sprintf("%s[%d]", base.name, i), BV(8))
		}
		e.recordNondet(st, name, "bytes", nil, bs, n)
		return st.newByteSlice(bs), true
	}
	// Blob(name, n): n arbitrary bytes carried as ONE wide variable (cheaper than n byte variables when the code only
	// moves or compares the bytes as a block, e.g. signatures, hashes, addresses)
	exact[api+"Blob"] = func(e *Engine, st *State, fn *ssa.Function, args []Value, retTo *ssa.Call) (Value, bool) {
		name := strArg(args[0])
		n := int(args[1].(*Term).Int64())
		if n == 0 {
			return st.newByteSlice(nil), true
		}
		if e.pinned != nil {
			return exact[api+"Bytes"](e, st, fn, args, retTo)
		}
		// the variable name carries the width: the same harness name may be used with different lengths on different paths,
		// and one solver session must never see two sorts for one symbol
		t := st.fresh(fmt.Sprintf("%s{%d}", name, n), BV(8*n))
		e.recordNondet(st, name, "blob", t, nil, n)
		return st.newByteSlice(bytesOfTerm(t)), true
	}
	// BlobLike(name, n, candidates...): as Blob, but the harness names byte strings the solver is likely to make the blob
	// EQUAL to (a digest, a key's address). Symbolically the blob stays unconstrained; a counterexample records which
	// candidate (if any) the model made it equal to, and the native build then uses that candidate's NATIVE bytes (real
	// Keccak digest, real key address) instead of the model's bytes, so that the counterexample replays.
	exact[api+"BlobLike"] = func(e *Engine, st *State, fn *ssa.Function, args []Value, retTo *ssa.Call) (Value, bool) {
		name := strArg(args[0])
		n := int(args[1].(*Term).Int64())
		if n == 0 {
			return st.newByteSlice(nil), true
		}
		if e.pinned != nil {
			return exact[api+"Bytes"](e, st, fn, args[:2], retTo)
		}
		t := st.fresh(fmt.Sprintf("%s{%d}", name, n), BV(8*n))
		var cands []*Term
		cs := args[2].(SliceV)
		for i := 0; i < cs.Len; i++ {
			c, ok := st.sliceGet(cs, i).(SliceV)
			if !ok || c.Len != n {
				cands = append(cands, nil)
				continue
			}
			cands = append(cands, termOfBytes(st.sliceBytes(c)))
		}
		st.nondet = append(st.nondet, NondetRec{Name: name, Kind: "blob", Term: t, Many: cands, Shape: n})
		return st.newByteSlice(bytesOfTerm(t)), true
	}
	exact[api+"Len"] = func(e *Engine, st *State, fn *ssa.Function, args []Value, retTo *ssa.Call) (Value, bool) {
		name := strArg(args[0])
		opts := args[1].(SliceV)
		var vals []int
		for i := 0; i < opts.Len; i++ {
			vals = append(vals, int(st.sliceGet(opts, i).(*Term).Int64()))
		}
		if e.pinned != nil {
			if vs, ok := e.pinned[name]; ok && e.pinCursor[name] < len(vs) {
				return ConstU(e.pinNext(name), 64), true
			}
			return ConstU(uint64(vals[0]), 64), true
		}
		occ := st.nameCnt["len-occ:"+name]
		st.nameCnt["len-occ:"+name] = occ + 1
		r, ok := restrict[fmt.Sprintf("%s#%d", name, occ)] // restriction of the occ-th call only
		if !ok {
			r, ok = restrict[name]
		}
		if ok {
			var keep []int
			for _, v := range vals {
				if r[v] {
					keep = append(keep, v)
				}
			}
			vals = keep
		}
		if len(vals) == 0 {
			st.status = Infeasible
			return nil, true
		}
		caller := st.top()
		for _, v := range vals[1:] {
			o := st.clone()
			e.recordNondet(o, name, "shape", nil, nil, v)
			if retTo != nil {
				o.top().regs[retTo] = ConstU(uint64(v), 64)
			}
			e.pushWork(o)
			e.stats.forks++
		}
		_ = caller
		e.recordNondet(st, name, "shape", nil, nil, vals[0])
		return ConstU(uint64(vals[0]), 64), true
	}
	exact[api+"Assume"] = func(e *Engine, st *State, fn *ssa.Function, args []Value, retTo *ssa.Call) (Value, bool) {
		c := args[0].(*Term)
		if !e.feasible(st, c) {
			st.status = Infeasible
			return nil, true
		}
		st.assume(c)
		return nil, true
	}
	exact[api+"Assert"] = func(e *Engine, st *State, fn *ssa.Function, args []Value, retTo *ssa.Call) (Value, bool) {
		c := args[0].(*Term)
		label := strArg(args[1])
		e.assert(st, c, label)
		return nil, true
	}
	exact[api+"Reach"] = func(e *Engine, st *State, fn *ssa.Function, args []Value, retTo *ssa.Call) (Value, bool) {
		st.reached[strArg(args[0])] = true
		return nil, true
	}
	exact[api+"NoPanic"] = func(e *Engine, st *State, fn *ssa.Function, args []Value, retTo *ssa.Call) (Value, bool) {
		e.callClosure(st, args[0], nil, func(st *State, res Value) {
			if st.status == Running && len(st.frames) > 0 && st.top().panicking != nil {
				e.continuePanic(st)
			}
		}, func(st *State, pi *PanicInfo) {
			// panic escaped f: violation, path ends
			e.reportViolation(st, "panic", pi.Msg, pi.Stack)
			st.status = Violated
			st.note = "panic: " + pi.Msg
		})
		return pendingV, true
	}

	// logging / metrics families: no-ops
	for _, p := range []string{"go.uber.org/zap", "(*go.uber.org/zap", "(go.uber.org/zap", "github.com/prometheus/", "(*github.com/prometheus/", "(github.com/prometheus/"} {
		prefixes = append(prefixes, struct {
			p string
			h Handler
		}{p, noop})
	}

	exact["fmt.Errorf"] = func(e *Engine, st *State, fn *ssa.Function, args []Value, retTo *ssa.Call) (Value, bool) {
		tag := "?"
		if s, ok := args[0].(StringV).Concrete(); ok {
			tag = s
		}
		// %w: a real *fmt.wrapError{msg, err} so that errors.Unwrap / Is see the wrapped operand
		if k := strings.Count(tag, "%w"); k == 1 {
			if fp := e.prog.ImportedPackage("fmt"); fp != nil {
				if tn, ok := fp.Members["wrapError"].(*ssa.Type); ok {
					va := args[1].(SliceV)
					// position of the %w operand among the verbs
					pos, seen := -1, 0
					for i := 0; i+1 < len(tag); i++ {
						if tag[i] == '%' {
							if tag[i+1] == '%' {
								i++
								continue
							}
							if tag[i+1] == 'w' {
								pos = seen
							}
							seen++
						}
					}
					if pos >= 0 && pos < va.Len {
						if w, ok := st.sliceGet(va, pos).(IfaceV); ok {
							sv := zero(tn.Type()).(*StructV)
							sv.F[0] = mkString("<" + tag + ">")
							sv.F[1] = w
							return IfaceV{T: types.NewPointer(tn.Type()), V: Ptr{Obj: st.alloc(sv)}}, true
						}
					}
				}
			}
		}
		return e.opaqueErr(tag), true
	}
	exact["fmt.Sprintf"] = func(e *Engine, st *State, fn *ssa.Function, args []Value, retTo *ssa.Call) (Value, bool) {
		return e.sprintf(st, args), true
	}

	exact["encoding/binary.Write"] = binaryWrite
	exact["encoding/binary.Read"] = binaryRead

	kecc := func(hashResult bool) Handler {
		return func(e *Engine, st *State, fn *ssa.Function, args []Value, retTo *ssa.Call) (Value, bool) {
			parts := args[0].(SliceV)
			var bs []*Term
			for i := 0; i < parts.Len; i++ {
				bs = append(bs, st.sliceBytes(st.sliceGet(parts, i).(SliceV))...)
			}
			out := e.keccak(st, bs)
			if hashResult {
				arr := &ArrayV{E: make([]Value, 32)}
				for i := range arr.E {
					arr.E[i] = out[i]
				}
				return arr, true
			}
			return st.newByteSlice(out), true
		}
	}
	exact["github.com/ethereum/go-ethereum/crypto.Keccak256"] = kecc(false)
	exact["github.com/ethereum/go-ethereum/crypto.Keccak256Hash"] = kecc(true)
}

func (e *Engine) keccak(st *State, in []*Term) []*Term {
	var inT *Term
	name := fmt.Sprintf("keccak_%d", len(in))
	var h *Term
	if len(in) == 0 {
		h = Var("keccak_empty", BV(256))
	} else {
		inT = termOfBytes(in)
		h = UF(name, BV(256), inT)
	}
	st.keccaks = append(st.keccaks, keccakApp{in: inT, out: h})
	out := make([]*Term, 32)
	for i := 0; i < 32; i++ {
		out[i] = Extract(255-8*i, 248-8*i, h)
	}
	return out
}

func (e *Engine) reportViolation(st *State, label, detail string, stack []string) {
	e.classify(st, True, label, detail, stack)
}

func (e *Engine) assert(st *State, c *Term, label string) {
	e.stats.asserts++
	if c.IsTrue() {
		e.stats.assertTrivial++
		return
	}
	t0 := time.Now()
	q := append(sliceFor(st.pc, c), Not(c))
	var r Result
	if prefixMode {
		q = append(append([]*Term(nil), st.pc...), Not(c))
		r = e.solver.CheckPC(st.pc, Not(c))
	} else {
		r = e.solver.Check(q)
	}
	ms := float64(time.Since(t0).Microseconds()) / 1000
	if r == Sat {
		e.solver.Pop()
	}
	e.sample(st, label, r.String(), ms)
	e.crossCheck(q, r, label)
	switch r {
	case Unsat:
		e.stats.assertUnsat++
	case Sat:
		// full (unsliced) query must agree before anything is reported
		full := append(append([]*Term(nil), st.pc...), Not(c))
		if rr := e.solver.Check(full); rr != Sat {
			e.unsupported["sliced sat but full query not sat on assert "+label]++
			st.assume(c)
			return
		}
		e.solver.Pop()
		e.stats.assertSat++
		e.classify(st, Not(c), label, "", st.stack())
		// continue under the assumption that the assertion held, if possible
		if !e.feasible(st, c) {
			st.status = Violated
			st.note = "assert " + label
			return
		}
		st.assume(c)
	default:
		e.unsupported["solver unknown on assert "+label]++
		st.assume(c)
	}
}

func (e *Engine) sample(st *State, label, verdict string, ms float64) {
	if len(e.samples) >= 8 && verdict != "sat" {
		return
	}
	if len(e.samples) >= 40 {
		return
	}
	shape := map[string]int{}
	for _, nd := range st.nondet {
		if nd.Kind == "shape" {
			shape[nd.Name] = nd.Shape
		}
	}
	e.samples = append(e.samples, Sample{Entry: e.entryName, Shape: shape, Label: label, Verdict: verdict, Ms: ms, PCSize: len(st.pc)})
}

var crossSolver = "z3-new"

// crossCheck re-decides an assertion query on a second solver (z3 5.x, fresh context per query).
func (e *Engine) crossCheck(q []*Term, primary Result, label string) {
	if e.crossBudget == 0 || primary == Unknown {
		return
	}
	if e.crossBudget > 0 {
		e.crossBudget--
	}
	if e.second == nil {
		s, err := newSolverMode(crossSolver, 20000, false)
		if err != nil {
			return
		}
		e.second = s
	}
	r := e.second.Check(q)
	e.cross.Checked++
	switch {
	case r == Unknown:
		e.cross.Unknown++
	case r == primary:
		e.cross.Agree++
	default:
		e.cross.Disagree++
		e.unsupported["solver-disagreement on assert "+label+": primary="+primary.String()+" second="+r.String()]++
	}
}

// ---------- fmt ----------

func (e *Engine) sprintf(st *State, args []Value) Value {
	format, ok := args[0].(StringV).Concrete()
	if !ok {
		e.unsupported_(st, "Sprintf symbolic format")
		return nil
	}
	va := args[1].(SliceV)
	// all operands concrete integers/strings/bools: use the real fmt
	{
		goArgs := make([]interface{}, 0, va.Len)
		ok := true
		for i := 0; i < va.Len && ok; i++ {
			a, isI := st.sliceGet(va, i).(IfaceV)
			if !isI {
				ok = false
				break
			}
			switch v := a.V.(type) {
			case *Term:
				if !v.IsConst() || a.T == nil {
					ok = false
					break
				}
				if b, isB := a.T.Underlying().(*types.Basic); isB && a.T == types.Type(b) {
					switch {
					case v.sort.K == SBool:
						goArgs = append(goArgs, v.IsTrue())
					case b.Info()&types.IsUnsigned != 0:
						goArgs = append(goArgs, v.Uint64())
					case b.Info()&types.IsInteger != 0:
						goArgs = append(goArgs, v.Int64())
					default:
						ok = false
					}
				} else {
					ok = false // named types may have String methods
				}
			case StringV:
				cs, c := v.Concrete()
				if !c || !isString(a.T) || a.T != types.Type(types.Typ[types.String]) {
					ok = false
					break
				}
				goArgs = append(goArgs, cs)
			default:
				ok = false
			}
		}
		if ok {
			return mkString(fmt.Sprintf(format, goArgs...))
		}
	}
	var out []*Term
	ai := 0
	for i := 0; i < len(format); i++ {
		c := format[i]
		if c != '%' {
			out = append(out, ConstU(uint64(c), 8))
			continue
		}
		i++
		if i >= len(format) {
			break
		}
		verb := format[i]
		if verb == '%' {
			out = append(out, ConstU('%', 8))
			continue
		}
		if ai >= va.Len {
			e.unsupported_(st, "Sprintf missing arg")
			return nil
		}
		arg := st.sliceGet(va, ai).(IfaceV)
		ai++
		switch verb {
		case 'd':
			t, ok := arg.V.(*Term)
			if !ok {
				e.unsupported_(st, "Sprintf %d on non-integer")
				return nil
			}
			if !t.IsConst() {
				if !exactFmt {
					// opaque rendering (only sound where the string feeds logs / opaque ids)
					e.modelsUsed["fmt.Sprintf(%d symbolic -> opaque)"] = true
					out = append(out, st.fresh("dec", BV(8)))
					continue
				}
				ds, ok := e.decimalDigits(st, t, arg.T)
				if !ok {
					return nil
				}
				out = append(out, ds...)
				continue
			}
			_, signed, _ := intWidth(arg.T)
			var s string
			if signed {
				s = fmt.Sprint(t.Int64())
			} else {
				s = fmt.Sprint(t.Uint64())
			}
			out = append(out, mkString(s).B...)
		case 's', 'v':
			switch v := arg.V.(type) {
			case StringV:
				out = append(out, v.B...)
			default:
				// Stringer?
				m := e.methodByName(arg.T, "Error") // fmt handles errors before Stringers
				if m == nil {
					m = e.methodByName(arg.T, "String")
				}
				if m == nil {
					e.unsupported_(st, "Sprintf %s on "+arg.T.String())
					return nil
				}
				r := e.callSync(st, FuncV{Fn: m}, []Value{arg.V})
				if st.status != Running {
					return nil
				}
				out = append(out, r.(StringV).B...)
			}
		default:
			// %T %x %q %w ...: rendered opaquely (such strings only reach logs, error texts and panic messages in the code in scope)
			e.modelsUsed["fmt verb %"+string(verb)+" rendered opaquely"] = true
			out = append(out, mkString("<%"+string(verb)+">").B...)
		}
	}
	return StringV{out}
}

// methodByName returns the exported method name of T (nil if T has none); LookupMethod panics on a missing method.
func (e *Engine) methodByName(T types.Type, name string) *ssa.Function {
	sel := e.prog.MethodSets.MethodSet(T).Lookup(nil, name)
	if sel == nil {
		return nil
	}
	return e.prog.MethodValue(sel)
}

// callSync runs fn to completion on this state; forks inside are not supported.
func (e *Engine) callSync(st *State, fv FuncV, args []Value) Value {
	if fv.Fn.Blocks == nil && fv.Fn.Pkg != nil {
		fv.Fn.Pkg.Build()
	}
	depth := len(st.frames)
	seq := e.stateSeq
	var result Value
	fr := e.pushFrame(st, fv.Fn, args, fv.Env, nil)
	if fr == nil {
		return nil
	}
	fr.onReturn = func(st *State, res Value) { result = res }
	for st.status == Running && len(st.frames) > depth {
		e.step(st)
	}
	if e.stateSeq != seq {
		e.unsupported_(st, "fork inside synchronous call of "+fv.Fn.String())
	}
	return result
}

// ---------- encoding/binary ----------

func fixedSize(t types.Type) (int, bool) {
	switch u := t.Underlying().(type) {
	case *types.Basic:
		if w, _, ok := intWidth(t); ok {
			if u.Kind() == types.Int || u.Kind() == types.Uint || u.Kind() == types.Uintptr {
				return 0, false
			}
			return w / 8, true
		}
		if isBool(t) {
			return 1, true
		}
	case *types.Array:
		n, ok := fixedSize(u.Elem())
		return n * int(u.Len()), ok
	}
	return 0, false
}

func isBigEndian(v Value) bool {
	iv := v.(IfaceV)
	return iv.T != nil && strings.Contains(iv.T.String(), "bigEndian")
}

func encodeBE(v Value, t types.Type, big bool) []*Term {
	switch u := t.Underlying().(type) {
	case *types.Basic:
		x := v.(*Term)
		if x.sort.K == SBool {
			return []*Term{Ite(x, ConstU(1, 8), ConstU(0, 8))}
		}
		n := x.sort.W / 8
		out := make([]*Term, n)
		for i := 0; i < n; i++ {
			b := Extract(x.sort.W-1-8*i, x.sort.W-8-8*i, x)
			if big {
				out[i] = b
			} else {
				out[n-1-i] = b
			}
		}
		return out
	case *types.Array:
		var out []*Term
		for _, el := range v.(*ArrayV).E {
			out = append(out, encodeBE(el, u.Elem(), big)...)
		}
		return out
	}
	panic("encodeBE")
}

func decodeBE(bs []*Term, t types.Type, big bool) (Value, []*Term) {
	switch u := t.Underlying().(type) {
	case *types.Basic:
		if isBool(t) {
			return Not(Eq(bs[0], ConstU(0, 8))), bs[1:]
		}
		w, _, _ := intWidth(t)
		n := w / 8
		var x *Term
		for i := 0; i < n; i++ {
			var b *Term
			if big {
				b = bs[i]
			} else {
				b = bs[n-1-i]
			}
			if x == nil {
				x = b
			} else {
				x = Concat(x, b)
			}
		}
		return x, bs[n:]
	case *types.Array:
		arr := &ArrayV{E: make([]Value, u.Len())}
		for i := range arr.E {
			arr.E[i], bs = decodeBE(bs, u.Elem(), big)
		}
		return arr, bs
	}
	panic("decodeBE")
}

func binaryWrite(e *Engine, st *State, fn *ssa.Function, args []Value, retTo *ssa.Call) (Value, bool) {
	w := args[0].(IfaceV)
	data := args[2].(IfaceV)
	t := data.T
	val := data.V
	if p, ok := t.Underlying().(*types.Pointer); ok {
		t = p.Elem()
		val = e.loadFrom(st, data.V)
	}
	if _, ok := fixedSize(t); !ok {
		// documented behaviour: error for non fixed-size values
		return e.opaqueErr("binary.Write: invalid type"), true
	}
	bs := encodeBE(val, t, isBigEndian(args[1]))
	m := e.prog.LookupMethod(w.T, nil, "Write")
	if m == nil {
		e.unsupported_(st, "binary.Write: writer without Write")
		return nil, true
	}
	caller := st.top()
	sl := st.newByteSlice(bs)
	e.callClosure(st, FuncV{Fn: m}, []Value{w.V, sl}, func(st *State, res Value) {
		// res = (n int, err error)
		if retTo != nil {
			st.top().regs[retTo] = res.(TupleV)[1]
		}
		_ = caller
	}, nil)
	return pendingV, true
}

func (e *Engine) ioErr(st *State, name string) Value {
	p := e.prog.ImportedPackage("io")
	g := p.Var(name)
	return st.load(Ptr{Obj: e.globalObj(st, g)})
}

func binaryRead(e *Engine, st *State, fn *ssa.Function, args []Value, retTo *ssa.Call) (Value, bool) {
	r := args[0].(IfaceV)
	data := args[2].(IfaceV)
	pt, ok := data.T.Underlying().(*types.Pointer)
	if !ok {
		return e.opaqueErr("binary.Read: invalid type"), true
	}
	size, ok := fixedSize(pt.Elem())
	if !ok {
		return e.opaqueErr("binary.Read: invalid type"), true
	}
	if !strings.HasSuffix(r.T.String(), "bytes.Reader") {
		e.unsupported_(st, "binary.Read from "+r.T.String())
		return nil, true
	}
	// model of io.ReadFull on *bytes.Reader{s []byte; i int64; prevRune int}
	rp := r.V.(Ptr)
	s := st.load(Ptr{rp.Obj, pathAppend(rp.Path, 0)}).(SliceV)
	iT := st.load(Ptr{rp.Obj, pathAppend(rp.Path, 1)}).(*Term)
	if !iT.IsConst() {
		e.unsupported_(st, "bytes.Reader with symbolic position")
		return nil, true
	}
	i := int(iT.Int64())
	avail := s.Len - i
	if avail < 0 {
		avail = 0
	}
	if size > 0 && avail == 0 {
		return e.ioErr(st, "EOF"), true
	}
	if avail < size {
		st.store(Ptr{rp.Obj, pathAppend(rp.Path, 1)}, ConstU(uint64(s.Len), 64))
		st.store(Ptr{rp.Obj, pathAppend(rp.Path, 2)}, ConstI(-1, 64))
		return e.ioErr(st, "ErrUnexpectedEOF"), true
	}
	bs := make([]*Term, size)
	for k := 0; k < size; k++ {
		bs[k] = st.sliceGet(s, i+k).(*Term)
	}
	v, _ := decodeBE(bs, pt.Elem(), isBigEndian(args[1]))
	e.storeTo(st, data.V, v)
	st.store(Ptr{rp.Obj, pathAppend(rp.Path, 1)}, ConstU(uint64(i+size), 64))
	st.store(Ptr{rp.Obj, pathAppend(rp.Path, 2)}, ConstI(-1, 64))
	return IfaceV{}, true
}

// constsOf collects integer constants in [64, 200000] from the SSA of the named function of the harness package and of
// the same-package functions it calls directly. Used to derive boundary lengths from the code under test.
func (e *Engine) constsOf(fnName string) []int {
	var root *ssa.Function
	if i := strings.LastIndex(fnName, "."); i >= 0 {
		// method: Type.Method
		if tn, ok := e.pkgOfEntry.Members[fnName[:i]].(*ssa.Type); ok {
			root = e.prog.LookupMethod(types.NewPointer(tn.Type()), e.pkgOfEntry.Pkg, fnName[i+1:])
		}
	} else {
		root = e.pkgOfEntry.Func(fnName)
	}
	if root == nil {
		return nil
	}
	seen := map[int]bool{}
	visit := func(f *ssa.Function) {
		for _, b := range f.Blocks {
			for _, in := range b.Instrs {
				for _, op := range in.Operands(nil) {
					if c, ok := (*op).(*ssa.Const); ok && c.Value != nil {
						if _, _, isInt := intWidth(c.Type()); isInt {
							if v, ok := constant.Int64Val(constant.ToInt(c.Value)); ok && v >= 64 && v <= 200000 {
								seen[int(v)] = true
							}
						}
					}
				}
			}
		}
	}
	visit(root)
	for _, b := range root.Blocks {
		for _, in := range b.Instrs {
			if c, ok := in.(ssa.CallInstruction); ok {
				if callee := c.Common().StaticCallee(); callee != nil && callee.Pkg == root.Pkg {
					visit(callee)
				}
			}
		}
	}
	var out []int
	for v := range seen {
		out = append(out, v)
	}
	sort.Ints(out)
	return out
}

func init() {
	exact["zzverif.LenRange"] = func(e *Engine, st *State, fn *ssa.Function, args []Value, retTo *ssa.Call) (Value, bool) {
		lo, hi := int(args[1].(*Term).Int64()), int(args[2].(*Term).Int64())
		var ts []*Term
		for v := lo; v <= hi; v++ {
			ts = append(ts, ConstU(uint64(v), 64))
		}
		return exact["zzverif.Len"](e, st, fn, []Value{args[0], st.newByteSlice(ts)}, retTo)
	}
	// LenFromConsts(name, fn, base...) = Len(name, base ∪ {c-1,c,c+1,2c : c constant of fn})
	exact["zzverif.LenFromConsts"] = func(e *Engine, st *State, fn *ssa.Function, args []Value, retTo *ssa.Call) (Value, bool) {
		opts := args[2].(SliceV)
		set := map[int]bool{}
		for i := 0; i < opts.Len; i++ {
			set[int(st.sliceGet(opts, i).(*Term).Int64())] = true
		}
		for _, c := range e.constsOf(strArg(args[1])) {
			set[c-1], set[c], set[c+1], set[2*c] = true, true, true, true
		}
		var vals []int
		for v := range set {
			vals = append(vals, v)
		}
		sort.Ints(vals)
		ts := make([]*Term, len(vals))
		for i, v := range vals {
			ts[i] = ConstU(uint64(v), 64)
		}
		sl := st.newByteSlice(ts) // element terms are 64-bit; only read through sliceGet
		return exact["zzverif.Len"](e, st, fn, []Value{args[0], sl}, retTo)
	}
}

var exactFmt = os.Getenv("SYMGO_DIGITS") != ""

// decimalDigits renders an unsigned symbolic integer exactly: the digit count is a fork (instruction re-executed in
// the clones), the digits are fresh variables d_i in 0..9 tied to the value by value = sum d_i*10^i (no division; the
// decomposition is unique, so the variables are named after the term and shared by every rendering of it).
func (e *Engine) decimalDigits(st *State, t *Term, typ types.Type) ([]*Term, bool) {
	if _, signed, _ := intWidth(typ); signed {
		e.unsupported_(st, "Sprintf %d signed symbolic")
		return nil, false
	}
	e.modelsUsed["fmt %d exact decimal rendering (digit variables)"] = true
	w := t.sort.W
	maxd := len(new(big.Int).Sub(new(big.Int).Lsh(big.NewInt(1), uint(w)), big.NewInt(1)).String())
	d := 1
	for ; d < maxd; d++ {
		lim := new(big.Int).Exp(big.NewInt(10), big.NewInt(int64(d)), nil)
		if e.decide(st, BVUlt(t, ConstBV(lim, w))) {
			break
		}
		if st.status != Running {
			return nil, false
		}
	}
	ww := w + 4
	sum := ConstU(0, ww)
	out := make([]*Term, d)
	for i := 0; i < d; i++ { // i = power of ten
		dv := Var(fmt.Sprintf("dig%d.%d", t.id, i), BV(8))
		st.assumeOnce(BVUle(dv, ConstU(9, 8)))
		p := new(big.Int).Exp(big.NewInt(10), big.NewInt(int64(i)), nil)
		sum = BVAdd(sum, BVMul(ZeroExt(dv, ww), ConstBV(p, ww)))
		out[d-1-i] = BVAdd(dv, ConstU('0', 8))
	}
	st.assumeOnce(Eq(sum, ZeroExt(t, ww)))
	// uniqueness of the decimal representation, stated explicitly between every two rendered values with the same
	// digit count (a theorem of arithmetic given the constraints above; it spares the solver the multiplications)
	digs := make([]*Term, d)
	for i := 0; i < d; i++ {
		digs[i] = Var(fmt.Sprintf("dig%d.%d", t.id, i), BV(8))
	}
	for _, r := range st.decs {
		if r.t == t || len(r.digits) != d || r.t.sort != t.sort {
			continue
		}
		all := True
		for i := 0; i < d; i++ {
			all = And(all, Eq(digs[i], r.digits[i]))
		}
		eqv := Eq(t, r.t)
		st.assumeOnce(And(Or(Not(eqv), all), Or(eqv, Not(all))))
	}
	known := false
	for _, r := range st.decs {
		if r.t == t && len(r.digits) == d {
			known = true
		}
	}
	if !known {
		st.decs = append(st.decs, decRec{t, digs})
	}
	return out, true
}
