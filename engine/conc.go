package main

import (
	"fmt"
	"go/types"

	"golang.org/x/tools/go/ssa"
)

// decide forks on a symbolic condition inside a model or instruction that will be RE-EXECUTED in the clone
// (the clone's pc is moved back by one instruction). Returns the truth value to use in the current state.
func (e *Engine) decide(st *State, c *Term) bool {
	if c.IsTrue() {
		return true
	}
	if c.IsFalse() {
		return false
	}
	ft := e.feasible(st, c)
	ff := true
	if ft {
		ff = e.feasible(st, Not(c))
	}
	switch {
	case ft && ff:
		o := st.clone()
		o.assume(Not(c))
		o.top().pc--
		e.pushWork(o)
		e.stats.forks++
		st.assume(c)
		return true
	case ft:
		return true
	case ff:
		return false
	}
	st.status = Infeasible
	return false
}

const Blocked Status = 100

func (e *Engine) makeChan(st *State, f *Frame, x *ssa.MakeChan) {
	sz := e.get(st, f, x.Size).(*Term)
	if !sz.IsConst() {
		e.unsupported_(st, "symbolic channel size")
		return
	}
	id := st.alloc(&ChanObj{Cap: int(sz.Int64())})
	f.regs[x] = ChanV{id}
}

// queue semantics: a channel of capacity c holds up to max(c,1) pending items when no receiver is modelled
// (an unbuffered channel in a single-goroutine harness is treated as a 1-slot hand-off queue read by the harness).
func chanRoom(co *ChanObj) bool {
	c := co.Cap
	if c == 0 {
		c = 1
	}
	return len(co.Buf) < c
}

func (e *Engine) chanSend(st *State, ch ChanV, v Value) bool {
	if ch.Obj == 0 {
		e.block(st, "send on nil channel")
		return false
	}
	co := st.wobj(ch.Obj).V.(*ChanObj)
	if co.Closed {
		e.goPanic(st, "send on closed channel", nil)
		return false
	}
	if !chanRoom(co) {
		e.block(st, "send on full channel")
		return false
	}
	co.Buf = append(co.Buf, copyVal(v))
	st.syncVer++
	return true
}

func (e *Engine) chanRecv(st *State, ch ChanV, elem types.Type) (Value, bool, bool) {
	if ch.Obj == 0 {
		e.block(st, "receive on nil channel")
		return nil, false, false
	}
	co := st.wobj(ch.Obj).V.(*ChanObj)
	if len(co.Buf) > 0 {
		v := co.Buf[0]
		co.Buf = co.Buf[1:]
		st.syncVer++
		return v, true, true
	}
	if co.Closed {
		return zero(elem), false, true
	}
	e.block(st, "receive on empty channel")
	return nil, false, false
}

func (e *Engine) selectInstr(st *State, f *Frame, x *ssa.Select) {
	// pick the first ready case in order (deterministic); default if none and non-blocking
	type res struct {
		idx  int
		recv Value
		ok   bool
	}
	chosen := -1
	var recvV Value
	recvOK := false
	for i, s := range x.States {
		ch := e.get(st, f, s.Chan).(ChanV)
		if ch.Obj == 0 {
			continue
		}
		co := st.obj(ch.Obj).V.(*ChanObj)
		if s.Dir == types.SendOnly {
			if !co.Closed && chanRoom(co) {
				chosen = i
				e.chanSend(st, ch, e.get(st, f, s.Send))
				break
			}
		} else {
			if len(co.Buf) > 0 || co.Closed {
				chosen = i
				recvV, recvOK, _ = e.chanRecv(st, ch, s.Chan.Type().Underlying().(*types.Chan).Elem())
				break
			}
		}
	}
	if chosen < 0 && x.Blocking {
		e.block(st, "select with no ready case")
		return
	}
	tup := TupleV{ConstI(int64(chosen), 64), ConstBool(recvOK)}
	for i, s := range x.States {
		if s.Dir == types.RecvOnly {
			et := s.Chan.Type().Underlying().(*types.Chan).Elem()
			if i == chosen {
				tup = append(tup, recvV)
			} else {
				tup = append(tup, zero(et))
			}
		}
	}
	f.regs[x] = tup
}

func (e *Engine) goInstr(st *State, f *Frame, x *ssa.Go) {
	fv, args, ok := e.evalCallee(st, f, x.Common())
	if !ok {
		return
	}
	fn := fv.(FuncV)
	if fn.Fn == nil {
		e.unsupported_(st, "go on non-function")
		return
	}
	e.spawn(st, fn, args)
}

var _ = fmt.Sprint
