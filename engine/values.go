package main

import (
	"fmt"
	"go/types"
	"strings"

	"golang.org/x/tools/go/ssa"
)

// Value is one of:
//   *Term (bool / integer / float scalar)
//   Ptr, SliceV, StringV, IfaceV, *StructV, *ArrayV, FuncV, MapV, ChanV, TupleV, OpaqueV, nil (untyped nil func etc.)
type Value interface{}

type Ptr struct {
	Obj  int // 0 = nil
	Path []int
}

type StructV struct{ F []Value }
type ArrayV struct{ E []Value }

type SliceV struct {
	Obj  int // 0 = nil slice
	Path []int
	Off  int
	Len  int
	Cap  int
}

type StringV struct{ B []*Term }

type IfaceV struct {
	T types.Type // nil => nil interface
	V Value
}

type FuncV struct {
	Fn      *ssa.Function
	Env     []Value
	Builtin *ssa.Builtin
}

type MapV struct{ Obj int }
type ChanV struct{ Obj int }
type TupleV []Value
type OpaqueV struct{ Tag string }

type MapEntry struct {
	K, V    Value
	Present *Term
}
type MapObj struct {
	Entries []MapEntry
	KT, VT  types.Type
}
type ChanObj struct {
	Buf    []Value
	Cap    int
	Closed bool
}

type Object struct {
	V Value // *StructV/*ArrayV/*MapObj/*ChanObj or scalar-ish cell content
}

func mkString(s string) StringV {
	b := make([]*Term, len(s))
	for i := 0; i < len(s); i++ {
		b[i] = ConstU(uint64(s[i]), 8)
	}
	return StringV{b}
}

func (s StringV) Concrete() (string, bool) {
	bs := make([]byte, len(s.B))
	for i, t := range s.B {
		if !t.IsConst() {
			return "", false
		}
		bs[i] = byte(t.Uint64())
	}
	return string(bs), true
}

func intWidth(t types.Type) (w int, signed bool, ok bool) {
	b, isb := t.Underlying().(*types.Basic)
	if !isb {
		return 0, false, false
	}
	switch b.Kind() {
	case types.Int8:
		return 8, true, true
	case types.Int16:
		return 16, true, true
	case types.Int32, types.UntypedRune:
		return 32, true, true
	case types.Int64, types.Int, types.UntypedInt:
		return 64, true, true
	case types.Uint8:
		return 8, false, true
	case types.Uint16:
		return 16, false, true
	case types.Uint32:
		return 32, false, true
	case types.Uint64, types.Uint, types.Uintptr:
		return 64, false, true
	}
	return 0, false, false
}

func isFloat(t types.Type) bool {
	b, ok := t.Underlying().(*types.Basic)
	return ok && b.Info()&types.IsFloat != 0
}

func isString(t types.Type) bool {
	b, ok := t.Underlying().(*types.Basic)
	return ok && b.Info()&types.IsString != 0
}

func isBool(t types.Type) bool {
	b, ok := t.Underlying().(*types.Basic)
	return ok && b.Info()&types.IsBoolean != 0
}

// zero value of a type
func zero(t types.Type) Value {
	switch u := t.Underlying().(type) {
	case *types.Basic:
		if w, _, ok := intWidth(t); ok {
			return ConstU(0, w)
		}
		switch {
		case isBool(t):
			return False
		case isString(t):
			return StringV{}
		case isFloat(t):
			return FPConst(0)
		case u.Kind() == types.UnsafePointer:
			return Ptr{}
		case u.Kind() == types.UntypedNil:
			return nil
		}
		panic("zero: basic " + t.String())
	case *types.Pointer:
		return Ptr{}
	case *types.Slice:
		return SliceV{}
	case *types.Struct:
		s := &StructV{F: make([]Value, u.NumFields())}
		for i := range s.F {
			s.F[i] = zero(u.Field(i).Type())
		}
		return s
	case *types.Array:
		a := &ArrayV{E: make([]Value, u.Len())}
		if u.Len() > 0 {
			z := zero(u.Elem())
			for i := range a.E {
				if i == 0 {
					a.E[i] = z
				} else {
					a.E[i] = copyVal(z)
				}
			}
		}
		return a
	case *types.Interface:
		return IfaceV{}
	case *types.Map:
		return MapV{}
	case *types.Chan:
		return ChanV{}
	case *types.Signature:
		return FuncV{}
	case *types.Tuple:
		tv := make(TupleV, u.Len())
		for i := range tv {
			tv[i] = zero(u.At(i).Type())
		}
		return tv
	}
	panic("zero: " + t.String())
}

// deep copy of aggregate values (structs/arrays are value types in Go)
func copyVal(v Value) Value {
	switch x := v.(type) {
	case *StructV:
		n := &StructV{F: make([]Value, len(x.F))}
		for i, f := range x.F {
			n.F[i] = copyVal(f)
		}
		return n
	case *ArrayV:
		n := &ArrayV{E: make([]Value, len(x.E))}
		for i, f := range x.E {
			n.E[i] = copyVal(f)
		}
		return n
	case TupleV:
		n := make(TupleV, len(x))
		for i, f := range x {
			n[i] = copyVal(f)
		}
		return n
	}
	return v
}

func copyObjContent(v Value) Value {
	switch x := v.(type) {
	case *MapObj:
		n := &MapObj{KT: x.KT, VT: x.VT, Entries: make([]MapEntry, len(x.Entries))}
		for i, e := range x.Entries {
			n.Entries[i] = MapEntry{copyVal(e.K), copyVal(e.V), e.Present}
		}
		return n
	case *ChanObj:
		n := &ChanObj{Cap: x.Cap, Closed: x.Closed, Buf: append([]Value(nil), x.Buf...)}
		return n
	}
	return copyVal(v)
}

func pathAppend(p []int, i int) []int {
	n := make([]int, len(p)+1)
	copy(n, p)
	n[len(p)] = i
	return n
}

func showVal(v Value) string {
	switch x := v.(type) {
	case *Term:
		if x.IsConst() {
			return x.head()
		}
		return fmt.Sprintf("<t%d:%s>", x.id, x.op)
	case Ptr:
		return fmt.Sprintf("&o%d%v", x.Obj, x.Path)
	case SliceV:
		return fmt.Sprintf("slice(o%d%v,%d,%d,%d)", x.Obj, x.Path, x.Off, x.Len, x.Cap)
	case StringV:
		if s, ok := x.Concrete(); ok {
			return fmt.Sprintf("%q", s)
		}
		return fmt.Sprintf("string[%d]", len(x.B))
	case IfaceV:
		if x.T == nil {
			return "nil-iface"
		}
		return fmt.Sprintf("iface(%s,%s)", x.T, showVal(x.V))
	case *StructV:
		var fs []string
		for _, f := range x.F {
			fs = append(fs, showVal(f))
		}
		return "{" + strings.Join(fs, ",") + "}"
	case *ArrayV:
		return fmt.Sprintf("array[%d]", len(x.E))
	case TupleV:
		var fs []string
		for _, f := range x {
			fs = append(fs, showVal(f))
		}
		return "(" + strings.Join(fs, ",") + ")"
	case FuncV:
		if x.Fn != nil {
			return "func " + x.Fn.String()
		}
		return "func?"
	case OpaqueV:
		return "opaque:" + x.Tag
	case nil:
		return "nil"
	}
	return fmt.Sprintf("%T", v)
}

var fpVals = map[*Term]float64{}

// FP helpers (float64 only)
func FPConst(f float64) *Term {
	t := TS.intern(&Term{op: "fpconst", sort: FPSort, name: fmt.Sprintf("((_ to_fp 11 53) RNE %s)", fpLit(f))})
	fpVals[t] = f
	return t
}

func fpLit(f float64) string {
	s := fmt.Sprintf("%.17g", f)
	if !strings.ContainsAny(s, ".e") {
		s += ".0"
	}
	if strings.Contains(s, "e") {
		// expand exponent form into a rational
		return fmt.Sprintf("(/ %s 1.0)", fmt.Sprintf("%.0f.0", f))
	}
	if f < 0 {
		return fmt.Sprintf("(- %s)", s[1:])
	}
	return s
}
