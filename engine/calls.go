package main

import (
	"fmt"
	"go/types"
	"strings"

	"golang.org/x/tools/go/ssa"
)

// evalCallee evaluates the function value and arguments of a call.
func (e *Engine) evalCallee(st *State, f *Frame, c *ssa.CallCommon) (Value, []Value, bool) {
	var args []Value
	if c.IsInvoke() {
		recv := e.get(st, f, c.Value).(IfaceV)
		if recv.T == opaqueType {
			// method call on an opaque environment object: no-op returning zero values
			return FuncV{Fn: nil, Env: []Value{OpaqueV{"opaque-method:" + c.Method.Name()}}}, nil, true
		}
		if recv.T == nil {
			e.goPanic(st, "nil pointer dereference (method call on nil interface "+c.Method.Name()+")", nil)
			return nil, nil, false
		}
		fn := e.prog.LookupMethod(recv.T, c.Method.Pkg(), c.Method.Name())
		if fn == nil {
			e.unsupported_(st, "cannot resolve method "+c.Method.Name()+" on "+recv.T.String())
			return nil, nil, false
		}
		args = append(args, recv.V)
		for _, a := range c.Args {
			args = append(args, e.get(st, f, a))
		}
		return FuncV{Fn: fn}, args, true
	}
	fv := e.get(st, f, c.Value)
	for _, a := range c.Args {
		args = append(args, e.get(st, f, a))
	}
	return fv, args, true
}

func (e *Engine) callInstr(st *State, f *Frame, c *ssa.CallCommon, instr *ssa.Call) {
	fv, args, ok := e.evalCallee(st, f, c)
	if !ok {
		return
	}
	e.invoke(st, fv, args, instr, false)
}

// invoke calls fv with args; result goes to retTo's register in the current top frame.
func (e *Engine) invoke(st *State, fv Value, args []Value, retTo *ssa.Call, isDefer bool) {
	fn, ok := fv.(FuncV)
	if !ok {
		e.unsupported_(st, fmt.Sprintf("call of %T", fv))
		return
	}
	caller := st.top()
	setRes := func(v Value) {
		if o, ok := v.(OpaqueV); ok && o == pendingV {
			return
		}
		if retTo != nil && st.status == Running {
			caller.regs[retTo] = v
		}
	}
	if fn.Builtin != nil {
		r := e.builtin(st, fn.Builtin, args, retTo, isDefer)
		setRes(r)
		return
	}
	if fn.Fn == nil {
		if len(fn.Env) == 1 {
			if o, ok := fn.Env[0].(OpaqueV); ok && strings.HasPrefix(o.Tag, "opaque-method:cancelctx:") {
				e.cancelCtx(st, o.Tag)
				return
			}
		}
		if len(fn.Env) == 2 {
			if o, ok := fn.Env[0].(OpaqueV); ok && o.Tag == "opaque-method:swapper" {
				sl := fn.Env[1].(SliceV)
				it, ok1 := args[0].(*Term)
				jt, ok2 := args[1].(*Term)
				if !ok1 || !ok2 || !it.IsConst() || !jt.IsConst() {
					e.unsupported_(st, "sort swapper with symbolic indices")
					return
				}
				i, j := int(it.Int64()), int(jt.Int64())
				if i < 0 || j < 0 || i >= sl.Len || j >= sl.Len {
					e.goPanic(st, "index out of range (sort swapper)", nil)
					return
				}
				arr := navigate(st.wobj(sl.Obj).V, sl.Path).(*ArrayV)
				arr.E[sl.Off+i], arr.E[sl.Off+j] = arr.E[sl.Off+j], arr.E[sl.Off+i]
				return
			}
		}
		if len(fn.Env) == 1 {
			if o, ok := fn.Env[0].(OpaqueV); ok && strings.HasPrefix(o.Tag, "opaque-method:") {
				if retTo != nil {
					setRes(opaqueResult(retTo.Type(), o.Tag))
				}
				return
			}
		}
		e.goPanic(st, "call of nil function", nil)
		return
	}
	name := fn.Fn.String()
	if fn.Fn.Name() == "init" && fn.Fn.Synthetic != "" && fn.Fn.Pkg != nil && len(st.frames) > 0 && fn.Fn.Pkg != st.top().fn.Pkg {
		return // nested package initialisation is lazy
	}
	if h := e.findIntercept(fn.Fn, name); h != nil {
		e.modelsUsed[name] = true
		r, handled := h(e, st, fn.Fn, args, retTo)
		if handled {
			setRes(r)
			return
		}
	}
	if fn.Fn.Blocks == nil && fn.Fn.Pkg != nil {
		fn.Fn.Pkg.Build()
	}
	if fn.Fn.Blocks == nil {
		// synthetic wrappers etc. are built lazily by the program
		e.unsupported_(st, "no body: "+name)
		return
	}
	var rt ssa.Value
	if retTo != nil {
		rt = retTo
	}
	fr := e.pushFrame(st, fn.Fn, args, fn.Env, rt)
	if fr != nil {
		fr.isDefer = isDefer
	}
}

// callClosure pushes a frame for fv and arranges cont to run with its results.
func (e *Engine) callClosure(st *State, fv Value, args []Value, cont func(st *State, res Value), onPanic func(st *State, pi *PanicInfo)) {
	fn := fv.(FuncV)
	if fn.Fn.Blocks == nil && fn.Fn.Pkg != nil {
		fn.Fn.Pkg.Build()
	}
	fr := e.pushFrame(st, fn.Fn, args, fn.Env, nil)
	if fr != nil {
		fr.onReturn = cont
		fr.onPanic = onPanic
	}
}

// ---------- builtins ----------

func (e *Engine) builtin(st *State, b *ssa.Builtin, args []Value, retTo *ssa.Call, isDefer bool) Value {
	switch b.Name() {
	case "len":
		switch x := args[0].(type) {
		case SliceV:
			return ConstU(uint64(x.Len), 64)
		case StringV:
			return ConstU(uint64(len(x.B)), 64)
		case *ArrayV:
			return ConstU(uint64(len(x.E)), 64)
		case MapV:
			return e.mapLen(st, x)
		case Ptr: // *array
			arr := navigate(st.obj(x.Obj).V, x.Path).(*ArrayV)
			return ConstU(uint64(len(arr.E)), 64)
		case ChanV:
			if x.Obj == 0 {
				return ConstU(0, 64)
			}
			return ConstU(uint64(len(st.obj(x.Obj).V.(*ChanObj).Buf)), 64)
		}
	case "cap":
		switch x := args[0].(type) {
		case SliceV:
			return ConstU(uint64(x.Cap), 64)
		case *ArrayV:
			return ConstU(uint64(len(x.E)), 64)
		case ChanV:
			if x.Obj == 0 {
				return ConstU(0, 64)
			}
			return ConstU(uint64(st.obj(x.Obj).V.(*ChanObj).Cap), 64)
		}
	case "append":
		s := args[0].(SliceV)
		var add []Value
		switch t := args[1].(type) {
		case SliceV:
			for i := 0; i < t.Len; i++ {
				add = append(add, st.sliceGet(t, i))
			}
		case StringV:
			for _, c := range t.B {
				add = append(add, c)
			}
		}
		if len(add) == 0 {
			return s
		}
		if s.Obj != 0 && s.Len+len(add) <= s.Cap {
			for i, v := range add {
				st.store(st.sliceElemPtr(s, s.Len+i), v)
			}
			s.Len += len(add)
			return s
		}
		// grow: new backing array (capacity: double, like runtime for small sizes — exact growth is unobservable except via cap)
		nc := s.Len + len(add)
		if nc < 2*s.Cap {
			nc = 2 * s.Cap
		}
		arr := &ArrayV{E: make([]Value, nc)}
		for i := 0; i < s.Len; i++ {
			arr.E[i] = copyVal(st.sliceGet(s, i))
		}
		for i, v := range add {
			arr.E[s.Len+i] = copyVal(v)
		}
		var et types.Type
		if retTo != nil {
			et = retTo.Type().Underlying().(*types.Slice).Elem()
		}
		for i := s.Len + len(add); i < nc; i++ {
			if et != nil {
				arr.E[i] = zero(et)
			} else {
				arr.E[i] = copyVal(add[0])
			}
		}
		id := st.alloc(arr)
		return SliceV{Obj: id, Len: s.Len + len(add), Cap: nc}
	case "copy":
		dst := args[0].(SliceV)
		var src []Value
		switch t := args[1].(type) {
		case SliceV:
			for i := 0; i < t.Len; i++ {
				src = append(src, st.sliceGet(t, i))
			}
		case StringV:
			for _, c := range t.B {
				src = append(src, c)
			}
		}
		n := len(src)
		if dst.Len < n {
			n = dst.Len
		}
		for i := 0; i < n; i++ {
			st.store(st.sliceElemPtr(dst, i), src[i])
		}
		return ConstU(uint64(n), 64)
	case "delete":
		e.mapDelete(st, args[0].(MapV), args[1])
		return nil
	case "panic":
		e.goPanicVal(st, args[0])
		return nil
	case "recover":
		// valid only when called directly by a deferred function whose parent frame is panicking
		n := len(st.frames)
		if n >= 2 && st.frames[n-1].isDefer && st.frames[n-2].panicking != nil && !st.frames[n-2].recovered {
			p := st.frames[n-2]
			p.recovered = true
			v := p.panicking.Val
			if v == nil {
				v = IfaceV{T: types.Typ[types.String], V: mkString(p.panicking.Msg)}
			}
			return v
		}
		return IfaceV{}
	case "print", "println":
		return nil
	case "min", "max":
		x, y := args[0].(*Term), args[1].(*Term)
		_, signed, _ := intWidth(retTo.Type())
		var lt *Term
		if signed {
			lt = BVSlt(x, y)
		} else {
			lt = BVUlt(x, y)
		}
		if b.Name() == "min" {
			return Ite(lt, x, y)
		}
		return Ite(lt, y, x)
	case "ssa:wrapnilchk":
		if p, ok := args[0].(Ptr); ok && p.Obj == 0 {
			e.goPanic(st, "value method called using nil pointer", nil)
			return nil
		}
		return args[0]
	case "close":
		c := args[0].(ChanV)
		if c.Obj == 0 {
			e.goPanic(st, "close of nil channel", nil)
			return nil
		}
		co := st.wobj(c.Obj).V.(*ChanObj)
		if co.Closed {
			e.goPanic(st, "close of closed channel", nil)
			return nil
		}
		co.Closed = true
		st.syncVer++ // receivers blocked on the channel can proceed
		return nil
	}
	e.unsupported_(st, "builtin "+b.Name()+fmt.Sprintf(" on %T", args[0]))
	return nil
}

// ---------- intercepts ----------

type Handler func(e *Engine, st *State, fn *ssa.Function, args []Value, retTo *ssa.Call) (Value, bool)

var exact = map[string]Handler{}

// optional summaries of pure repo functions (enabled per run with -summary, listed in the evidence)
var summaries = map[string]bool{}
var prefixes = []struct {
	p string
	h Handler
}{}

func (e *Engine) findIntercept(fn *ssa.Function, name string) Handler {
	if strings.HasSuffix(name, "vaa.VAAID).Bytes") && !summaries["vaaid"] {
		return nil
	}
	if i := strings.Index(name, "/pkg/zzverif."); i >= 0 {
		name = name[i+5:]
	}
	if h, ok := exact[name]; ok {
		return h
	}
	// generated protobuf Stringers only feed logs
	if strings.HasSuffix(name, ").String") && strings.Contains(name, "/pkg/proto/") {
		return opaqueString("proto.String")
	}
	for _, p := range prefixes {
		if strings.HasPrefix(name, p.p) {
			return p.h
		}
	}
	return nil
}

// returns the zero value of the function's result (no-op model)
func noop(e *Engine, st *State, fn *ssa.Function, args []Value, retTo *ssa.Call) (Value, bool) {
	rs := fn.Signature.Results()
	switch rs.Len() {
	case 0:
		return nil, true
	case 1:
		return opaqueZero(rs.At(0).Type(), fn.String()), true
	}
	tv := make(TupleV, rs.Len())
	for i := range tv {
		tv[i] = opaqueZero(rs.At(i).Type(), fn.String())
	}
	return tv, true
}

func opaqueZero(t types.Type, tag string) Value {
	switch t.Underlying().(type) {
	case *types.Pointer:
		return Ptr{} // nil; callers only pass it on to other no-ops
	case *types.Interface:
		return IfaceV{T: opaqueType, V: OpaqueV{tag}}
	}
	return zero(t)
}

var opaqueType = types.NewNamed(types.NewTypeName(0, nil, "verifOpaque", nil), types.NewStruct(nil, nil), nil)

func opaqueResult(t types.Type, tag string) Value {
	if tup, ok := t.(*types.Tuple); ok {
		tv := make(TupleV, tup.Len())
		for i := range tv {
			tv[i] = opaqueZero(tup.At(i).Type(), tag)
		}
		return tv
	}
	if isString(t) {
		return mkString("<" + tag + ">")
	}
	return opaqueZero(t, tag)
}
