package main

import (
	"fmt"
	"go/types"
	"math/big"

	"golang.org/x/tools/go/ssa"
)

type deferred struct {
	fn   Value
	args []Value
	// for invoke-mode defers
	method *types.Func
}

type PanicInfo struct {
	Val   Value
	Msg   string
	Stack []string
}

type Frame struct {
	fn       *ssa.Function
	block    *ssa.BasicBlock
	prev     *ssa.BasicBlock
	pc       int
	regs     map[ssa.Value]Value
	env      []Value // free vars
	defers   []*deferred
	loops    map[int]int
	retTo    ssa.Value // call instruction value in caller (nil if none/void)
	isDefer  bool      // frame is running a deferred call
	panicking *PanicInfo // panic in flight while running defers
	recovered bool
	onReturn func(st *State, results Value) // optional native continuation
	onPanic  func(st *State, pi *PanicInfo) // panic barrier (NoPanic)
	noPreempt int                            // block*100000+pc+1 of the instruction that already forked a pre-emption
}

type NondetRec struct {
	Name string
	Term *Term   // scalar
	Many []*Term // bytes
	Shape int    // for Len/Choice: chosen value
	Kind string
}

type Event struct {
	Kind string
	Data []Value
}

type Status int

const (
	Running Status = iota
	Finished
	Panicked
	Infeasible
	Unsupported
	UnwindExceeded
	Violated
)

type State struct {
	id      int
	frames  []*Frame
	heap    map[int]*Object
	owned   map[int]bool
	globals map[*ssa.Global]int
	inited  map[*ssa.Package]bool
	pc      []*Term
	nondet  []NondetRec
	nameCnt map[string]int
	events  []Event
	status  Status
	note    string
	panicv  *PanicInfo
	reached map[string]bool
	steps   int
	keccaks []keccakApp
	sigs    []sigReg
	pcH1, pcH2 uint64
	badSigs    []*Term
	decs       []decRec
	bigs       map[int]*Term
	gos        []*Gor
	curGo      int
	goSeq      int
	syncVer    int
	mutexes    map[string]int
	mustNotBlock int
	preemptOn    bool
	uuidSeq      int
	lastMs        *Term
	msOf          map[int]*Term
	usedUnixMilli bool
	interleave   *interleaveCtx
	interleaveFork bool // this state explores "reader runs now": a reader that has to wait (lock held by the writer) simply cannot run here
}

type interleaveCtx struct {
	reader  FuncV
	baseObj int
	depth   int
}

type decRec struct {
	t      *Term
	digits []*Term
}

type keccakApp struct {
	in  *Term
	out *Term
}
type sigReg struct {
	digest *Term // 256
	sig    *Term // 520
	key    int
}

var objCounter = 0

func newState() *State {
	return &State{heap: map[int]*Object{}, owned: map[int]bool{}, globals: map[*ssa.Global]int{}, inited: map[*ssa.Package]bool{},
		nameCnt: map[string]int{}, reached: map[string]bool{}}
}

func (st *State) clone() *State {
	n := &State{heap: make(map[int]*Object, len(st.heap)), owned: map[int]bool{}, globals: make(map[*ssa.Global]int, len(st.globals)),
		inited: make(map[*ssa.Package]bool, len(st.inited)), nameCnt: make(map[string]int, len(st.nameCnt)), reached: make(map[string]bool, len(st.reached))}
	for k, v := range st.heap {
		n.heap[k] = v
	}
	st.owned = map[int]bool{}
	for k, v := range st.globals {
		n.globals[k] = v
	}
	for k, v := range st.inited {
		n.inited[k] = v
	}
	for k, v := range st.nameCnt {
		n.nameCnt[k] = v
	}
	for k, v := range st.reached {
		n.reached[k] = v
	}
	n.pc = append([]*Term(nil), st.pc...)
	n.nondet = append([]NondetRec(nil), st.nondet...)
	n.events = append([]Event(nil), st.events...)
	n.keccaks = append([]keccakApp(nil), st.keccaks...)
	n.sigs = append([]sigReg(nil), st.sigs...)
	n.badSigs = append([]*Term(nil), st.badSigs...)
	n.decs = append([]decRec(nil), st.decs...)
	n.lastMs, n.usedUnixMilli = st.lastMs, st.usedUnixMilli
	if st.msOf != nil {
		n.msOf = make(map[int]*Term, len(st.msOf))
		for k, v := range st.msOf {
			n.msOf[k] = v
		}
	}
	n.interleave = st.interleave
	n.interleaveFork = st.interleaveFork
	n.curGo, n.goSeq, n.syncVer, n.mustNotBlock, n.preemptOn, n.uuidSeq = st.curGo, st.goSeq, st.syncVer, st.mustNotBlock, st.preemptOn, st.uuidSeq
	for _, g := range st.gos {
		n.gos = append(n.gos, &Gor{id: g.id, frames: cloneFrames(g.frames), blockedAt: g.blockedAt, settling: g.settling})
	}
	if st.mutexes != nil {
		n.mutexes = make(map[string]int, len(st.mutexes))
		for k, v := range st.mutexes {
			n.mutexes[k] = v
		}
	}
	if st.bigs != nil {
		n.bigs = make(map[int]*Term, len(st.bigs))
		for k, v := range st.bigs {
			n.bigs[k] = v
		}
	}
	n.status = st.status
	n.steps = st.steps
	n.pcH1, n.pcH2 = st.pcH1, st.pcH2
	n.frames = make([]*Frame, len(st.frames))
	for i, f := range st.frames {
		nf := *f
		nf.regs = make(map[ssa.Value]Value, len(f.regs))
		for k, v := range f.regs {
			nf.regs[k] = v
		}
		nf.loops = make(map[int]int, len(f.loops))
		for k, v := range f.loops {
			nf.loops[k] = v
		}
		nf.defers = append([]*deferred(nil), f.defers...)
		n.frames[i] = &nf
	}
	return n
}

func (st *State) alloc(v Value) int {
	objCounter++
	id := objCounter
	st.heap[id] = &Object{V: v}
	st.owned[id] = true
	return id
}

func (st *State) obj(id int) *Object {
	o := st.heap[id]
	if o == nil {
		panic(fmt.Sprintf("dangling object %d", id))
	}
	return o
}

func (st *State) wobj(id int) *Object {
	o := st.obj(id)
	if !st.owned[id] {
		o = &Object{V: copyObjContent(o.V)}
		st.heap[id] = o
		st.owned[id] = true
	}
	return o
}

func navigate(v Value, path []int) Value {
	for _, i := range path {
		switch x := v.(type) {
		case *StructV:
			v = x.F[i]
		case *ArrayV:
			v = x.E[i]
		default:
			panic(fmt.Sprintf("navigate into %T", v))
		}
	}
	return v
}

func (st *State) load(p Ptr) Value {
	o := st.obj(p.Obj)
	return copyVal(navigate(o.V, p.Path))
}

func (st *State) store(p Ptr, v Value) {
	o := st.wobj(p.Obj)
	v = copyVal(v)
	if len(p.Path) == 0 {
		o.V = v
		return
	}
	parent := navigate(o.V, p.Path[:len(p.Path)-1])
	last := p.Path[len(p.Path)-1]
	switch x := parent.(type) {
	case *StructV:
		x.F[last] = v
	case *ArrayV:
		x.E[last] = v
	default:
		panic(fmt.Sprintf("store into %T", parent))
	}
}

// slice element access
func (st *State) sliceElemPtr(s SliceV, i int) Ptr {
	return Ptr{s.Obj, pathAppend(s.Path, s.Off+i)}
}

func (st *State) sliceGet(s SliceV, i int) Value {
	o := st.obj(s.Obj)
	arr := navigate(o.V, s.Path).(*ArrayV)
	return arr.E[s.Off+i]
}

func (st *State) sliceBytes(s SliceV) []*Term {
	if s.Len == 0 {
		return nil
	}
	o := st.obj(s.Obj)
	arr := navigate(o.V, s.Path).(*ArrayV)
	out := make([]*Term, s.Len)
	for i := 0; i < s.Len; i++ {
		out[i] = arr.E[s.Off+i].(*Term)
	}
	return out
}

func (st *State) newByteSlice(bs []*Term) SliceV {
	arr := &ArrayV{E: make([]Value, len(bs))}
	for i, b := range bs {
		arr.E[i] = b
	}
	id := st.alloc(arr)
	return SliceV{Obj: id, Len: len(bs), Cap: len(bs)}
}

func (st *State) newSlice(elem types.Type, n, c int) SliceV {
	arr := &ArrayV{E: make([]Value, c)}
	if c > 0 {
		z := zero(elem)
		for i := range arr.E {
			arr.E[i] = copyVal(z)
		}
	}
	id := st.alloc(arr)
	return SliceV{Obj: id, Len: n, Cap: c}
}

func (st *State) fresh(name string, s Sort) *Term {
	k := st.nameCnt[name]
	st.nameCnt[name] = k + 1
	n := name
	if k > 0 {
		n = fmt.Sprintf("%s#%d", name, k)
	}
	return Var(n, s)
}

func (st *State) top() *Frame { return st.frames[len(st.frames)-1] }

func (st *State) assume(t *Term) {
	if t.IsTrue() {
		return
	}
	st.pc = append(st.pc, t)
	st.pcH1 = st.pcH1*1000003 ^ uint64(t.id)*0x9E3779B97F4A7C15
	st.pcH2 = (st.pcH2+uint64(t.id))*0xff51afd7ed558ccd ^ (st.pcH2 >> 29)
}

func (st *State) assumeOnce(t *Term) {
	for _, c := range st.pc {
		if c == t {
			return
		}
	}
	st.assume(t)
}

func bigOf(v int64) *big.Int { return big.NewInt(v) }

func (st *State) stack() []string {
	var s []string
	for i := len(st.frames) - 1; i >= 0; i-- {
		f := st.frames[i]
		pos := ""
		if f.block != nil && f.pc > 0 && f.pc <= len(f.block.Instrs) {
			if p := f.block.Instrs[f.pc-1].Pos(); p.IsValid() {
				pos = " @" + f.fn.Prog.Fset.Position(p).String()
			}
		}
		s = append(s, f.fn.String()+pos)
	}
	return s
}

// freshOnce returns a boolean choice variable that is stable across re-execution of the same instruction.
func (st *State) freshOnce(name string, key int) *Term {
	return Var(fmt.Sprintf("%s@%d.%d", name, key, len(st.frames)), BoolSort)
}
