package main

// Constraint independence (KLEE-style): only the part of the path condition that shares symbols
// (variables or uninterpreted function names) with the query is sent to the solver.

var symCache = map[int][]int{}
var ufIds = map[string]int{}

func symsOf(t *Term) []int {
	if s, ok := symCache[t.id]; ok {
		return s
	}
	set := map[int]bool{}
	switch t.op {
	case "var":
		set[t.id] = true
	case "uf":
		id, ok := ufIds[t.name]
		if !ok {
			id = -(len(ufIds) + 1)
			ufIds[t.name] = id
		}
		set[id] = true
	}
	for _, a := range t.args {
		for _, v := range symsOf(a) {
			set[v] = true
		}
	}
	out := make([]int, 0, len(set))
	for v := range set {
		out = append(out, v)
	}
	symCache[t.id] = out
	return out
}

func sliceFor(pc []*Term, q *Term) []*Term {
	rel := map[int]bool{}
	for _, v := range symsOf(q) {
		rel[v] = true
	}
	used := make([]bool, len(pc))
	changed := true
	for changed {
		changed = false
		for i, c := range pc {
			if used[i] {
				continue
			}
			hit := false
			ss := symsOf(c)
			for _, v := range ss {
				if rel[v] {
					hit = true
					break
				}
			}
			if hit {
				used[i] = true
				changed = true
				for _, v := range ss {
					rel[v] = true
				}
			}
		}
	}
	var out []*Term
	for i, c := range pc {
		if used[i] {
			out = append(out, c)
		}
	}
	return out
}
