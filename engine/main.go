package main

import (
	"flag"
	"fmt"
	"os"
	"path/filepath"
	"sort"
	"strings"
	"time"

	"golang.org/x/tools/go/packages"
	"golang.org/x/tools/go/ssa"
	"golang.org/x/tools/go/ssa/ssautil"
)

func main() {
	repoMod := flag.String("mod", "/repo/node", "module dir")
	pkgPat := flag.String("pkg", "./pkg/vaa", "package pattern")
	harness := flag.String("harness", "", "harness file(s), comma separated")
	entry := flag.String("entry", "", "entry function name(s), comma separated")
	api := flag.String("api", "/verif/api/zzverif/api.go", "zzverif api file")
	p2p := flag.String("p2pstrip", "", "stripped p2p.go")
	unwind := flag.Int("unwind", 3000, "loop unwind bound")
	steps := flag.Int("steps", 3000000, "per-path step budget")
	forkLimit := flag.Int("forklimit", 300, "max symbolic make() length")
	verbose := flag.Bool("v", false, "verbose")
	z3bin := flag.String("z3", "z3", "solver binary")
	doReplay := flag.Bool("replay", false, "replay counterexamples natively")
	replace := flag.String("replace", "", "orig=new[,orig=new] source replacements (mutant testing)")
	flag.Parse()

	t0 := time.Now()
	pkgDir := filepath.Join(*repoMod, strings.TrimPrefix(*pkgPat, "./"))
	overlay := map[string][]byte{}
	b, err := os.ReadFile(*api)
	if err != nil {
		panic(err)
	}
	overlay[filepath.Join(*repoMod, "pkg/zzverif/api.go")] = b
	native := map[string]string{filepath.Join(*repoMod, "pkg/zzverif/api.go"): *api}
	for i, h := range strings.Split(*harness, ",") {
		hb, err := os.ReadFile(h)
		if err != nil {
			panic(err)
		}
		overlay[filepath.Join(pkgDir, fmt.Sprintf("zz_verif_h%d.go", i))] = hb
		abs, _ := filepath.Abs(h)
		native[filepath.Join(pkgDir, fmt.Sprintf("zz_verif_h%d.go", i))] = abs
	}
	if *p2p != "" {
		pb, _ := os.ReadFile(*p2p)
		overlay["/repo/node/pkg/p2p/p2p.go"] = pb
		native["/repo/node/pkg/p2p/p2p.go"] = *p2p
	}
	if *replace != "" {
		for _, r := range strings.Split(*replace, ",") {
			kv := strings.SplitN(r, "=", 2)
			rb, err := os.ReadFile(kv[1])
			if err != nil {
				panic(err)
			}
			overlay[kv[0]] = rb
			native[kv[0]] = kv[1]
		}
	}
	cfg := &packages.Config{Mode: packages.LoadAllSyntax, Dir: *repoMod, Overlay: overlay,
		Env: append(os.Environ(), "GOFLAGS=-mod=mod", "GOPROXY=off", "GOSUMDB=off")}
	pkgs, err := packages.Load(cfg, *pkgPat)
	if err != nil {
		panic(err)
	}
	nerr := 0
	packages.Visit(pkgs, nil, func(p *packages.Package) {
		for _, e := range p.Errors {
			nerr++
			if nerr < 8 {
				fmt.Println("LOAD ERROR", p.PkgPath, e)
			}
		}
	})
	prog, spkgs := ssautil.AllPackages(pkgs, ssa.InstantiateGenerics)
	root := spkgs[0]
	root.Build()
	fmt.Printf("loaded %s in %.1fs (errors=%d)\n", *pkgPat, time.Since(t0).Seconds(), nerr)

	exit := 0
	for _, en := range strings.Split(*entry, ",") {
		fn := root.Func(en)
		if fn == nil {
			fmt.Println("entry not found:", en)
			os.Exit(2)
		}
		solver, err := NewSolver(*z3bin, 60000)
		if err != nil {
			panic(err)
		}
		e := &Engine{prog: prog, solver: solver, cfg: Config{MaxUnwind: *unwind, MaxSteps: *steps, ForkLimit: *forkLimit, Verbose: *verbose},
			reached: map[string]bool{}, unsupported: map[string]int{}, funcsSeen: map[string]bool{}, modelsUsed: map[string]bool{}}
		t1 := time.Now()
		e.Run(fn)
		wall := time.Since(t1)
		fmt.Printf("== %s: paths=%d forks=%d steps=%d asserts=%d (unsat=%d sat=%d) feas-queries=%d solver-queries=%d fallbacks=%d restarts=%d solver=%.2fs wall=%.2fs\n",
			en, e.stats.paths, e.stats.forks, e.stats.steps, e.stats.asserts, e.stats.assertUnsat, e.stats.assertSat, e.stats.feas, solver.Queries, solver.Fallbacks, solver.Restarts, solver.Time.Seconds(), wall.Seconds())
		fmt.Printf("   status: %v  reached: %v\n", e.stats.byStatus, keys(e.reached))
		{
			ds := append([]time.Duration(nil), solver.Durs...)
			sort.Slice(ds, func(i, j int) bool { return ds[i] < ds[j] })
			if n := len(ds); n > 0 {
				var top time.Duration
				for _, d := range ds[n-n/20:] {
					top += d
				}
				fmt.Printf("   query time: p50=%v p90=%v p99=%v max=%v; slowest 5%% take %.1fs of %.1fs\n", ds[n/2], ds[n*9/10], ds[n*99/100], ds[n-1], top.Seconds(), solver.Time.Seconds())
			}
		}
		if len(e.unsupported) > 0 {
			fmt.Println("   UNSUPPORTED:")
			for k, v := range e.unsupported {
				fmt.Printf("     %dx %s\n", v, k)
			}
			exit = 2
		}
		for _, st := range e.done {
			if st.status == UnwindExceeded || st.status == Panicked {
				fmt.Printf("   path %d status=%d note=%s\n", st.id, st.status, st.note)
				if st.panicv != nil {
					for _, l := range st.panicv.Stack {
						fmt.Println("        ", l)
					}
				}
			}
		}
		if *verbose || os.Getenv("SYMGO_BRANCHSTAT") != "" {
			type kv struct {
				k string
				v int
			}
			var l []kv
			for k, v := range e.symBranch {
				l = append(l, kv{k, v})
			}
			sort.Slice(l, func(i, j int) bool { return l[i].v > l[j].v })
			for i, x := range l {
				if i < 12 {
					fmt.Printf("   symbolic branches: %6d %s\n", x.v, x.k)
				}
			}
		}
		seen := map[string]bool{}
		for _, v := range e.violations {
			shape := []string{}
			for _, nd := range v.State.nondet {
				if nd.Kind == "shape" {
					shape = append(shape, fmt.Sprintf("%s=%d", nd.Name, nd.Shape))
				}
			}
			key := v.Label + strings.Join(shape, ",")
			if seen[key] {
				continue
			}
			seen[key] = true
			fmt.Printf("   VIOLATION label=%s shape=%v detail=%s\n", v.Label, shape, v.Detail)
			var ms []string
			for _, nd := range v.State.nondet {
				if nd.Term != nil && v.Model != nil {
					if val, ok := v.Model[nd.Term.name]; ok {
						ms = append(ms, fmt.Sprintf("%s=%s", nd.Term.name, val))
					}
				}
			}
			if len(ms) > 12 {
				ms = ms[:12]
			}
			fmt.Printf("      model: %s\n", strings.Join(ms, " "))
			exit = 1
			if *doReplay {
				dir := fmt.Sprintf("/root/symgo-spike/work/%s-%d", en, len(seen))
				ok, tail := replay(v, dir, *repoMod, *pkgPat, root.Pkg.Name(), en, native)
				fmt.Printf("      replay: reproduced=%v dir=%s\n", ok, dir)
				if !ok {
					fmt.Println(tail)
				}
			}
		}
		fmt.Printf("   functions executed: %d, models used: %v\n", len(e.funcsSeen), keys(e.modelsUsed))
		solver.Close()
	}
	os.Exit(exit)
}

func keys(m map[string]bool) []string {
	var ks []string
	for k := range m {
		ks = append(ks, k)
	}
	sort.Strings(ks)
	return ks
}
