package main

import (
	"regexp"
	"encoding/json"
	"flag"
	"fmt"
	"os"
	"path/filepath"
	"sort"
	"strings"
	"time"

	"golang.org/x/tools/go/packages"
	"golang.org/x/tools/go/ssa"
	"golang.org/x/tools/go/ssa/ssautil"
)

// EntryResult is what one symbolic run of one harness entry produced (written as JSON for the driver).
type EntryResult struct {
	Entry        string            `json:"entry"`
	Pkg          string            `json:"pkg"`
	Restrict     string            `json:"restrict"`
	Paths        int               `json:"paths"`
	Forks        int               `json:"forks"`
	Steps        int               `json:"steps"`
	Asserts      int               `json:"asserts"`
	AssertUnsat  int               `json:"assert_unsat"`
	AssertSat    int               `json:"assert_sat"`
	AssertTriv   int               `json:"assert_trivial"`
	FeasQueries  int               `json:"feas_queries"`
	Queries      int               `json:"solver_queries"`
	Fallbacks    int               `json:"fallbacks"`
	SolverS      float64           `json:"solver_s"`
	WallS        float64           `json:"wall_s"`
	LoadS        float64           `json:"load_s"`
	Status       map[string]int    `json:"status"`
	Reached      []string          `json:"reached"`
	Unsupported  map[string]int    `json:"unsupported"`
	Unwind       []string          `json:"unwind_failures"`
	Blocked      []string          `json:"blocked"`
	Functions    []string          `json:"functions"`
	Models       []string          `json:"models"`
	Samples      []Sample          `json:"samples"`
	Violations   []ViolationReport `json:"violations"`
	Cross        CrossStats        `json:"cross"`
	QueryP50ms   float64           `json:"query_p50_ms"`
	QueryP99ms   float64           `json:"query_p99_ms"`
	QueryMaxms   float64           `json:"query_max_ms"`
	UncaughtPanics []string        `json:"uncaught_panics"`
	PinnedOK     int               `json:"pinned_ok"`
}

type Sample struct {
	Entry   string         `json:"entry"`
	Shape   map[string]int `json:"shape"`
	Label   string         `json:"assert"`
	Verdict string         `json:"verdict"`
	Ms      float64        `json:"solver_ms"`
	PCSize  int            `json:"path_condition_terms"`
}

type ViolationReport struct {
	Label      string            `json:"label"`
	Detail     string            `json:"detail"`
	Shape      map[string]int    `json:"shape"`
	Model      map[string]string `json:"model"`
	Stack      []string          `json:"stack"`
	Known      string            `json:"known"`
	ReplayDir  string            `json:"replay_dir"`
	Reproduced bool              `json:"reproduced"`
	Replayed   bool              `json:"replayed"`
	ReplayTail string            `json:"replay_tail"`
}

type CrossStats struct {
	Checked   int `json:"checked"`
	Agree     int `json:"agree"`
	Disagree  int `json:"disagree"`
	Unknown   int `json:"second_unknown"`
}

type stringList []string

func (s *stringList) String() string     { return strings.Join(*s, ",") }
func (s *stringList) Set(v string) error { *s = append(*s, v); return nil }

var restrict = map[string]map[int]bool{}

func parseRestrict(s string) {
	for _, part := range strings.Split(s, ";") {
		part = strings.TrimSpace(part)
		if part == "" {
			continue
		}
		kv := strings.SplitN(part, "=", 2)
		set := map[int]bool{}
		for _, v := range strings.Split(kv[1], ",") {
			var n, m int
			if k, _ := fmt.Sscanf(strings.TrimSpace(v), "%d..%d", &n, &m); k == 2 {
				for ; n <= m; n++ {
					set[n] = true
				}
				continue
			}
			fmt.Sscanf(strings.TrimSpace(v), "%d", &n)
			set[n] = true
		}
		restrict[strings.TrimSpace(kv[0])] = set
	}
}

func main() {
	repoMod := flag.String("mod", "/repo/node", "module dir")
	pkgPat := flag.String("pkg", "./pkg/vaa", "package pattern")
	harnessDir := flag.String("harnessdir", "", "directory with harness files for the package (all *.go overlaid)")
	var harnessFiles stringList
	flag.Var(&harnessFiles, "harness", "harness file (repeatable)")
	entry := flag.String("entry", "", "entry function name(s), comma separated")
	api := flag.String("api", "/verif/api/zzverif/api.go", "zzverif api file")
	unwind := flag.Int("unwind", 3000, "loop unwind bound")
	steps := flag.Int("steps", 3000000, "per-path step budget")
	forkLimit := flag.Int("forklimit", 300, "max symbolic make() length")
	verbose := flag.Bool("v", false, "verbose")
	z3bin := flag.String("z3", "z3", "solver binary")
	doReplay := flag.Bool("replay", true, "replay counterexamples natively")
	var replaces stringList
	flag.Var(&replaces, "replace", "orig=new source replacement (repeatable)")
	outPath := flag.String("out", "", "write JSON result here")
	workDir := flag.String("workdir", "/verif/.work/adhoc", "scratch directory for replays")
	restrictS := flag.String("restrict", "", "restrict shape choices: name=v1,v2;name2=v")
	knownPath := flag.String("known", "/verif/known_findings.json", "known findings file")
	prop := flag.String("prop", "", "property id (for known findings)")
	cross := flag.Int("cross", 0, "cross-check up to N assertion queries per entry on a second solver (-1 = all)")
	maxReplay := flag.Int("maxreplay", 3, "max native replays per (label, known-id)")
	stripP2P := flag.Bool("stripp2p", true, "overlay a copy of pkg/p2p/p2p.go whose Run body is stripped (quic-go does not build)")
	pin := flag.String("pin", "", "concrete run: JSON file name->[values] pinning every nondet (translator validation)")
	clockFiles := flag.String("clockfiles", "", "comma separated source files (relative to -mod) in which time.Now()/time.Since( are redirected to the harness clock zzverif.Now()/zzverif.Since( (mechanical copy, used by the symbolic AND the native build)")
	hookFiles := flag.String("hookfiles", "", "comma separated file:ReceiverType (relative to -mod): every method of the receiver gets a prologue that calls zzverif.Hooks[\"Type.Method\"] when the harness registered one (mechanical copy, used by both builds)")
	crossBin := flag.String("crosssolver", "z3-new", "second solver for -cross: z3-new, z3 or cvc5")
	witnessN := flag.Int("witness", 0, "replay up to N passing paths natively (translator validation)")
	exact := flag.Bool("exactfmt", false, "render %d of symbolic integers exactly (digit variables) instead of opaquely")
	summ := flag.String("summary", "", "comma separated summaries to enable (vaaid = (*VAAID).Bytes as an injective encoding of its fields)")
	flag.Parse()
	if flag.NArg() > 0 {
		fmt.Fprintf(os.Stderr, "symgo: unexpected arguments %v (flags after them would be ignored)\n", flag.Args())
		os.Exit(3)
	}
	for _, x := range strings.Split(*summ, ",") {
		if x != "" {
			summaries[x] = true
		}
	}
	if *exact {
		exactFmt = true
	}
	crossSolver = *crossBin
	parseRestrict(*restrictS)

	t0 := time.Now()
	os.MkdirAll(*workDir, 0755)
	pkgDir := filepath.Join(*repoMod, strings.TrimPrefix(*pkgPat, "./"))
	overlay := map[string][]byte{}
	native := map[string]string{}
	addOverlay := func(virtual, real string) {
		b, err := os.ReadFile(real)
		if err != nil {
			fmt.Println("INCONCLUSIVE cannot read", real, err)
			os.Exit(2)
		}
		overlay[virtual] = b
		abs, _ := filepath.Abs(real)
		native[virtual] = abs
	}
	addOverlay(filepath.Join(*repoMod, "pkg/zzverif/api.go"), *api)
	if !strings.HasSuffix(strings.TrimSuffix(*pkgPat, "/"), "pkg/supervisor") {
		addOverlay(filepath.Join(*repoMod, "pkg/zzverif/sup.go"), filepath.Join(filepath.Dir(*api), "sup.go"))
	}
	if *harnessDir != "" {
		fs, _ := filepath.Glob(filepath.Join(*harnessDir, "*.go"))
		sort.Strings(fs)
		for _, h := range fs {
			harnessFiles = append(harnessFiles, h)
		}
	}
	for _, h := range harnessFiles {
		addOverlay(filepath.Join(pkgDir, "zz_verif_"+filepath.Base(h)), h)
	}
	if *stripP2P && strings.HasSuffix(filepath.Clean(*repoMod), "/node") {
		p2pSrc := filepath.Join(*repoMod, "pkg/p2p/p2p.go")
		if _, err := os.Stat(p2pSrc); err == nil {
			out := filepath.Join(*workDir, "p2p_stripped.go")
			if err := stripRun(p2pSrc, out); err != nil {
				fmt.Println("INCONCLUSIVE cannot strip p2p.Run:", err)
				os.Exit(2)
			}
			addOverlay(p2pSrc, out)
		}
	}
	for _, cf := range strings.Split(*clockFiles, ",") {
		if cf == "" {
			continue
		}
		src := filepath.Join(*repoMod, cf)
		out := filepath.Join(*workDir, "clock_"+strings.ReplaceAll(cf, "/", "_"))
		if err := rewriteClock(src, out, *repoMod); err != nil {
			fmt.Println("INCONCLUSIVE cannot redirect the clock in", cf, err)
			os.Exit(2)
		}
		addOverlay(src, out)
	}
	for _, hf := range strings.Split(*hookFiles, ",") {
		if hf == "" {
			continue
		}
		kv := strings.SplitN(hf, ":", 2)
		src := filepath.Join(*repoMod, kv[0])
		out := filepath.Join(*workDir, "hook_"+strings.ReplaceAll(kv[0], "/", "_"))
		if err := rewriteHooks(src, out, *repoMod, kv[1]); err != nil {
			fmt.Println("INCONCLUSIVE cannot insert hooks in", kv[0], err)
			os.Exit(2)
		}
		addOverlay(src, out)
	}
	for _, r := range replaces {
		kv := strings.SplitN(r, "=", 2)
		addOverlay(kv[0], kv[1])
	}
	cfg := &packages.Config{Mode: packages.LoadAllSyntax, Dir: *repoMod, Overlay: overlay,
		Env: append(os.Environ(), "GOFLAGS=-mod=mod", "GOPROXY=off", "GOSUMDB=off", "GOTOOLCHAIN=local")}
	pkgs, err := packages.Load(cfg, *pkgPat)
	if err != nil {
		fmt.Println("INCONCLUSIVE load:", err)
		os.Exit(2)
	}
	nerr := 0
	packages.Visit(pkgs, nil, func(p *packages.Package) {
		for _, e := range p.Errors {
			nerr++
			if nerr < 12 {
				fmt.Println("LOAD ERROR", p.PkgPath, e)
			}
		}
	})
	if nerr > 0 {
		fmt.Println("INCONCLUSIVE harness-does-not-build")
		os.Exit(2)
	}
	prog, spkgs := ssautil.AllPackages(pkgs, ssa.InstantiateGenerics)
	root := spkgs[0]
	root.Build()
	loadS := time.Since(t0).Seconds()
	fmt.Printf("loaded %s in %.1fs\n", *pkgPat, loadS)

	known := loadKnown(*knownPath, *prop)
	var pinned map[string][]uint64
	if *pin != "" {
		b, err := os.ReadFile(*pin)
		if err != nil {
			panic(err)
		}
		json.Unmarshal(b, &pinned)
	}

	exit := 0
	var results []*EntryResult
	for _, en := range strings.Split(*entry, ",") {
		fn := root.Func(en)
		if fn == nil {
			fmt.Println("INCONCLUSIVE entry not found:", en)
			os.Exit(2)
		}
		solver, err := NewSolver(*z3bin, 60000)
		if err != nil {
			panic(err)
		}
		e := &Engine{prog: prog, solver: solver, cfg: Config{MaxUnwind: *unwind, MaxSteps: *steps, ForkLimit: *forkLimit, Verbose: *verbose},
			reached: map[string]bool{}, unsupported: map[string]int{}, funcsSeen: map[string]bool{}, modelsUsed: map[string]bool{}}
		e.entryName = en
		e.pinned = pinned
		for _, k := range known {
			if k.Entry == "" || k.Entry == en {
				e.known = append(e.known, k)
			}
		}
		e.crossBudget = *cross
		t1 := time.Now()
		e.Run(fn)
		wall := time.Since(t1)
		res := &EntryResult{Entry: en, Pkg: *pkgPat, Restrict: *restrictS, Paths: e.stats.paths, Forks: e.stats.forks, Steps: e.stats.steps,
			Asserts: e.stats.asserts, AssertUnsat: e.stats.assertUnsat, AssertSat: e.stats.assertSat, AssertTriv: e.stats.assertTrivial, FeasQueries: e.stats.feas,
			Queries: solver.Queries, Fallbacks: solver.Fallbacks, SolverS: solver.Time.Seconds(), WallS: wall.Seconds(), LoadS: loadS,
			Status: map[string]int{}, Unsupported: e.unsupported, Reached: keys(e.reached), Functions: keys(e.funcsSeen), Models: keys(e.modelsUsed),
			Samples: e.samples, Cross: e.cross}
		for s, n := range e.stats.byStatus {
			res.Status[statusName(s)] = n
		}
		ds := append([]time.Duration(nil), solver.Durs...)
		sort.Slice(ds, func(i, j int) bool { return ds[i] < ds[j] })
		if n := len(ds); n > 0 {
			res.QueryP50ms = float64(ds[n/2].Microseconds()) / 1000
			res.QueryP99ms = float64(ds[n*99/100].Microseconds()) / 1000
			res.QueryMaxms = float64(ds[n-1].Microseconds()) / 1000
		}
		fmt.Printf("== %s [%s]: paths=%d forks=%d steps=%d asserts=%d (unsat=%d trivial=%d sat=%d) feas=%d queries=%d fallbacks=%d solver=%.2fs wall=%.2fs\n",
			en, *restrictS, e.stats.paths, e.stats.forks, e.stats.steps, e.stats.asserts, e.stats.assertUnsat, e.stats.assertTrivial, e.stats.assertSat, e.stats.feas, solver.Queries, solver.Fallbacks, solver.Time.Seconds(), wall.Seconds())
		fmt.Printf("   status: %v  reached: %v\n", res.Status, res.Reached)
		fmt.Printf("   query ms: p50=%.1f p99=%.1f max=%.1f cache-hits=%d\n", res.QueryP50ms, res.QueryP99ms, res.QueryMaxms, e.stats.cacheHits)
		if n := solver.Cancels; n > 0 {
			fmt.Printf("   solver cancellations (own time limit hit while asserting; context restarted, query re-decided in a fresh context): %d\n", n)
		}
		// An (error ...) line from the primary solver: the output is read in order before every answer, so the error is
		// seen before any answer computed after it; the context is discarded (restart) and the query is decided again in a
		// fresh context (an undecided assertion is INCONCLUSIVE on its own). Isolated events (observed once: several
		// processes at the same moment on an overloaded machine) are reported; more than two per process, or any error
		// that repeats on the same query in the fresh context, makes the run INCONCLUSIVE - that is an encoding problem.
		if n := solver.Errors; n > 2 {
			e.unsupported[fmt.Sprintf("solver reported %d (error ...) lines (last: %s); affected queries were re-decided in a fresh context or counted unknown", n, lastSolverErr)] = n
		} else if n > 0 {
			fmt.Printf("   solver (error ...) lines: %d (last: %s); context restarted, queries re-decided in a fresh context\n", n, lastSolverErr)
		}
		if len(e.unsupported) > 0 {
			fmt.Println("   UNSUPPORTED / INCONCLUSIVE:")
			for k, v := range e.unsupported {
				fmt.Printf("     %dx %s\n", v, k)
			}
			exit = max(exit, 2)
		}
		for _, st := range e.done {
			switch st.status {
			case UnwindExceeded:
				res.Unwind = append(res.Unwind, st.note)
				fmt.Printf("   path %d UNWIND %s\n", st.id, st.note)
				exit = max(exit, 2)
			case Panicked:
				msg := st.note
				if st.panicv != nil && len(st.panicv.Stack) > 0 {
					msg += " @ " + st.panicv.Stack[0]
				}
				res.UncaughtPanics = append(res.UncaughtPanics, msg)
				if len(res.UncaughtPanics) <= 5 {
					fmt.Printf("   path %d uncaught panic (outside NoPanic): %s\n", st.id, msg)
					if *verbose && st.panicv != nil {
						for _, l := range st.panicv.Stack {
							fmt.Println("        ", l)
						}
					}
				}
			case Blocked:
				res.Blocked = append(res.Blocked, st.note)
			}
		}
		if *verbose || os.Getenv("SYMGO_BRANCHSTAT") != "" {
			type kv struct {
				k string
				v int
			}
			var l []kv
			for k, v := range e.symBranch {
				l = append(l, kv{k, v})
			}
			sort.Slice(l, func(i, j int) bool { return l[i].v > l[j].v })
			for i, x := range l {
				if i < 12 {
					fmt.Printf("   symbolic branches: %6d %s\n", x.v, x.k)
				}
			}
		}
		// violations: dedupe, replay
		seen := map[string]int{}
		okCount := map[string]int{}  // reproduced replays per key
		tries := map[string]int{}    // replay attempts per key
		lastShape := map[string]string{}
		for _, v := range e.violations {
			shape := map[string]int{}
			var shapeS []string
			for _, nd := range v.State.nondet {
				if nd.Kind == "shape" {
					shape[nd.Name] = nd.Shape
					shapeS = append(shapeS, fmt.Sprintf("%s=%d", nd.Name, nd.Shape))
				}
			}
			key := v.Label + "|" + v.Known + "|" + digitsRe.ReplaceAllString(v.Detail, "#")
			seen[key]++
			vr := ViolationReport{Label: v.Label, Detail: v.Detail, Shape: shape, Stack: v.Stack, Known: v.Known, Model: map[string]string{}}
			for _, nd := range v.State.nondet {
				if nd.Term != nil && v.Model != nil {
					if val, ok := v.Model[nd.Term.name]; ok && len(vr.Model) < 64 {
						vr.Model[nd.Term.name] = val.String()
					}
				}
			}
			// replay until maxreplay counterexamples of this kind reproduced; a counterexample that does not reproduce (a model
			// freedom the native environment does not have, e.g. "protobuf accepts these bytes") is followed by further
			// attempts on counterexamples of a different shape, up to 12 attempts
			shapeKey := strings.Join(shapeS, ",")
			want := *doReplay && okCount[key] < *maxReplay && tries[key] < 12 && (tries[key] < *maxReplay || okCount[key] > 0 || lastShape[key] != shapeKey)
			if want {
				tries[key]++
				lastShape[key] = shapeKey
				dir := filepath.Join(*workDir, fmt.Sprintf("replay-%s-%d", en, len(res.Violations)))
				ok, tail := replay(v, dir, *repoMod, *pkgPat, root.Pkg.Name(), en, native)
				vr.Replayed, vr.Reproduced, vr.ReplayDir, vr.ReplayTail = true, ok, dir, tail
				if ok {
					okCount[key]++
				}
			}
			kind := "VIOLATION-CANDIDATE"
			if v.Known != "" {
				kind = "KNOWN-CANDIDATE"
			}
			if seen[key] <= 3 {
				fmt.Printf("   %s label=%s known=%q shape=%v detail=%s replayed=%v reproduced=%v dir=%s\n", kind, v.Label, v.Known, shapeS, v.Detail, vr.Replayed, vr.Reproduced, vr.ReplayDir)
				if vr.Replayed && !vr.Reproduced {
					fmt.Println(vr.ReplayTail)
				}
			}
			res.Violations = append(res.Violations, vr)
			if v.Known == "" {
				exit = max(exit, 1)
			}
		}
		// translator validation: replay up to -witness passing paths natively
		wdone := 0
		if os.Getenv("SYMGO_LOG") != "" {
			fmt.Printf("   witness: want %d, done states %d, violations %d\n", *witnessN, len(e.done), len(e.violations))
		}
		newViolations := 0
		for _, v := range e.violations {
			if v.Known == "" {
				newViolations++
			}
		}
		for _, st := range e.done {
			if wdone >= *witnessN || newViolations > 0 {
				break
			}
			if st.status != Finished || len(st.reached) == 0 {
				continue
			}
			if r := solver.Check(st.pc); r != Sat {
				if os.Getenv("SYMGO_LOG") != "" {
					fmt.Printf("   witness: path %d not usable (path condition check = %v)\n", st.id, r)
				}
				continue
			}
			model := solver.Values(TS.vars)
			solver.Pop()
			dir := filepath.Join(*workDir, fmt.Sprintf("witness-%s-%d", en, wdone))
			ok, tail := witness(st, model, dir, *repoMod, *pkgPat, root.Pkg.Name(), en, native)
			wdone++
			if ok {
				res.PinnedOK++
			} else {
				fmt.Printf("   WITNESS mismatch (a passing symbolic path fails natively): %s\n%s\n", dir, tail)
				e.unsupported["translator-mismatch: a passing symbolic path did not pass natively ("+dir+")"]++
				res.Unsupported = e.unsupported
				exit = max(exit, 2)
			}
		}
		fmt.Printf("   functions executed: %d, models used: %d, witnesses replayed natively: %d\n", len(e.funcsSeen), len(e.modelsUsed), res.PinnedOK)
		solver.Close()
		if e.second != nil {
			e.second.Close()
		}
		results = append(results, res)
	}
	if *outPath != "" {
		b, _ := json.MarshalIndent(results, "", " ")
		os.WriteFile(*outPath, b, 0644)
	}
	os.Exit(exit)
}

var digitsRe = regexp.MustCompile(`[0-9]+`)

func statusName(s Status) string {
	switch s {
	case Running:
		return "running"
	case Finished:
		return "finished"
	case Panicked:
		return "panicked"
	case Infeasible:
		return "infeasible"
	case Unsupported:
		return "unsupported"
	case UnwindExceeded:
		return "unwind"
	case Violated:
		return "violated"
	case Blocked:
		return "blocked"
	}
	return fmt.Sprint(int(s))
}

func keys(m map[string]bool) []string {
	ks := []string{}
	for k := range m {
		ks = append(ks, k)
	}
	sort.Strings(ks)
	return ks
}
