package main

import (
	"math/bits"
	"fmt"
	"time"
	"go/types"
	"math/big"
	"strings"

	"golang.org/x/tools/go/ssa"
)

func prefixNoop(ps ...string) {
	for _, p := range ps {
		prefixes = append(prefixes, struct {
			p string
			h Handler
		}{p, noop})
	}
}

func opaqueString(tag string) Handler {
	return func(e *Engine, st *State, fn *ssa.Function, args []Value, retTo *ssa.Call) (Value, bool) {
		return mkString("<" + tag + ">"), true
	}
}

// kv store object layout: heap object holding *MapObj with StringV keys and SliceV values
func (e *Engine) kvOf(st *State, db Value) MapV {
	p := db.(Ptr)
	return st.load(p).(MapV)
}

func sliceToString(st *State, s SliceV) StringV { return StringV{st.sliceBytes(s)} }

func init() {
	prefixNoop("sync/atomic.", "(*sync/atomic.",
		"github.com/alephium/wormhole-fork/node/pkg/supervisor.Logger",
		"github.com/alephium/wormhole-fork/node/pkg/readiness.",
		"(*github.com/alephium/wormhole-fork/node/pkg/notify/discord.")
	// ---- sync.Mutex / RWMutex / Once with real blocking semantics (cooperative scheduler, gor.go) ----
	mkey := func(v Value) string { p := v.(Ptr); return fmt.Sprintf("%d%v", p.Obj, p.Path) }
	getM := func(st *State, k string) int { return st.mutexes[k] }
	setM := func(st *State, k string, v int) {
		if st.mutexes == nil {
			st.mutexes = map[string]int{}
		}
		st.mutexes[k] = v
		st.syncVer++
	}
	lock := func(e *Engine, st *State, fn *ssa.Function, args []Value, retTo *ssa.Call) (Value, bool) {
		k := mkey(args[0])
		if getM(st, k) != 0 {
			e.block(st, "Lock of a held mutex")
			return pendingV, true
		}
		setM(st, k, -1)
		return nil, true
	}
	unlock := func(e *Engine, st *State, fn *ssa.Function, args []Value, retTo *ssa.Call) (Value, bool) {
		k := mkey(args[0])
		if getM(st, k) != -1 {
			e.goPanic(st, "sync: unlock of unlocked mutex", nil)
			return nil, true
		}
		setM(st, k, 0)
		return nil, true
	}
	exact["(*sync.Mutex).Lock"], exact["(*sync.Mutex).Unlock"] = lock, unlock
	exact["(*sync.RWMutex).Lock"], exact["(*sync.RWMutex).Unlock"] = lock, unlock
	exact["(*sync.Mutex).TryLock"] = func(e *Engine, st *State, fn *ssa.Function, args []Value, retTo *ssa.Call) (Value, bool) {
		k := mkey(args[0])
		if getM(st, k) != 0 {
			return False, true
		}
		setM(st, k, -1)
		return True, true
	}
	exact["(*sync.RWMutex).RLock"] = func(e *Engine, st *State, fn *ssa.Function, args []Value, retTo *ssa.Call) (Value, bool) {
		k := mkey(args[0])
		if getM(st, k) < 0 {
			e.block(st, "RLock of a write-locked mutex")
			return pendingV, true
		}
		setM(st, k, getM(st, k)+1)
		return nil, true
	}
	exact["(*sync.RWMutex).RUnlock"] = func(e *Engine, st *State, fn *ssa.Function, args []Value, retTo *ssa.Call) (Value, bool) {
		k := mkey(args[0])
		if getM(st, k) <= 0 {
			e.goPanic(st, "sync: RUnlock of unlocked RWMutex", nil)
			return nil, true
		}
		setM(st, k, getM(st, k)-1)
		return nil, true
	}
	exact["(*sync.Once).Do"] = func(e *Engine, st *State, fn *ssa.Function, args []Value, retTo *ssa.Call) (Value, bool) {
		k := "once:" + mkey(args[0])
		if getM(st, k) != 0 {
			return nil, true
		}
		setM(st, k, 1)
		e.callClosure(st, args[1], nil, func(st *State, res Value) {}, nil)
		return pendingV, true
	}
	// uuid.New(): fresh, pairwise distinct ids (a counter in the first bytes)
	exact["github.com/google/uuid.New"] = func(e *Engine, st *State, fn *ssa.Function, args []Value, retTo *ssa.Call) (Value, bool) {
		st.goSeq += 0
		st.uuidSeq++
		arr := zero(fn.Signature.Results().At(0).Type()).(*ArrayV)
		arr.E[0] = ConstU(uint64(st.uuidSeq>>8), 8)
		arr.E[1] = ConstU(uint64(st.uuidSeq&0xff), 8)
		return arr, true
	}
	// back-off: durations are irrelevant to the decisions in scope; NextBackOff returns an arbitrary non-negative duration
	exact["github.com/cenkalti/backoff/v4.NewExponentialBackOff"] = func(e *Engine, st *State, fn *ssa.Function, args []Value, retTo *ssa.Call) (Value, bool) {
		t := fn.Signature.Results().At(0).Type().Underlying().(*types.Pointer).Elem()
		return Ptr{Obj: st.alloc(zero(t))}, true
	}
	exact["(*github.com/cenkalti/backoff/v4.ExponentialBackOff).NextBackOff"] = func(e *Engine, st *State, fn *ssa.Function, args []Value, retTo *ssa.Call) (Value, bool) {
		d := st.fresh("backoff", BV(64))
		st.assume(BVSge(d, ConstU(0, 64)))
		return d, true
	}
	exact["(*github.com/cenkalti/backoff/v4.ExponentialBackOff).Reset"] = noop
	// time.Sleep: no time passes in the model, but a sleeping spawned goroutine lets everybody else run first (it is
	// parked runnable at the end of the queue) - what a goroutine reads AFTER its sleep is read after the others moved on
	exact["time.Sleep"] = func(e *Engine, st *State, fn *ssa.Function, args []Value, retTo *ssa.Call) (Value, bool) {
		if st.curGo == 0 || len(st.gos) == 0 {
			return nil, true
		}
		me := &Gor{id: st.curGo, frames: st.frames, blockedAt: -1}
		st.gos = append(st.gos, me)
		e.schedule(st)
		e.modelsUsed["time.Sleep in a spawned goroutine yields to the other goroutines"] = true
		return pendingV, true
	}
	exact["runtime/debug.Stack"] = func(e *Engine, st *State, fn *ssa.Function, args []Value, retTo *ssa.Call) (Value, bool) {
		return st.newByteSlice(mkString("<stack>").B), true
	}
	exact["(*regexp.Regexp).MatchString"] = func(e *Engine, st *State, fn *ssa.Function, args []Value, retTo *ssa.Call) (Value, bool) {
		return True, true
	}
	// dialling a chain node: always fails in the model (no network); callers in scope propagate the error
	dialFail := func(e *Engine, st *State, fn *ssa.Function, args []Value, retTo *ssa.Call) (Value, bool) {
		return TupleV{Ptr{}, e.opaqueErr("dial: no network in the model")}, true
	}
	exact["github.com/ethereum/go-ethereum/ethclient.DialContext"] = dialFail
	exact["github.com/ethereum/go-ethereum/ethclient.Dial"] = dialFail
	// encoding/json.Marshal is reflection; in the code in scope its output only feeds log fields
	exact["encoding/json.Marshal"] = func(e *Engine, st *State, fn *ssa.Function, args []Value, retTo *ssa.Call) (Value, bool) {
		return TupleV{st.newByteSlice(mkString("<json>").B), IfaceV{}}, true
	}
	exact["github.com/mr-tron/base58.Encode"] = opaqueString("base58")
	exact["github.com/btcsuite/btcutil/base58.Encode"] = opaqueString("base58")
	exact["regexp.MustCompile"] = noop
	exact["regexp.Compile"] = noop
	prefixNoop("github.com/prometheus/client_golang/prometheus/promauto.")
	exact["github.com/alephium/wormhole-fork/node/pkg/p2p.collectNodeMetrics"] = noop
	exact["encoding/hex.EncodeToString"] = func(e *Engine, st *State, fn *ssa.Function, args []Value, retTo *ssa.Call) (Value, bool) {
		bs := st.sliceBytes(args[0].(SliceV))
		out := make([]*Term, 0, 2*len(bs))
		for _, b := range bs {
			out = append(out, HexChar(Extract(7, 4, b)), HexChar(Extract(3, 0, b)))
		}
		return StringV{out}, true
	}
	exact["(github.com/alephium/wormhole-fork/node/pkg/vaa.ChainID).String"] = opaqueString("chainid")
	exact["(github.com/ethereum/go-ethereum/common.Address).Hex"] = opaqueString("addr.Hex")
	exact["(github.com/ethereum/go-ethereum/common.Hash).Hex"] = opaqueString("hash.Hex")
	exact["(github.com/ethereum/go-ethereum/common.Hash).String"] = opaqueString("hash.String")

	// sort.Slice / sort.SliceStable / sort.SliceIsSorted: the reflection-based swapper is replaced by a built-in closure
	// that swaps two (concrete-index) elements of the slice; the sorting algorithm itself (stable_func / pdqsort_func of
	// package sort) runs as real code, forking on the outcomes of the caller's less function.
	sortSlice := func(target string) func(e *Engine, st *State, fn *ssa.Function, args []Value, retTo *ssa.Call) (Value, bool) {
		return func(e *Engine, st *State, fn *ssa.Function, args []Value, retTo *ssa.Call) (Value, bool) {
			x, ok := args[0].(IfaceV)
			if !ok {
				return nil, false
			}
			sl, ok := x.V.(SliceV)
			if !ok {
				return nil, false
			}
			tf := fn.Pkg.Func(target)
			if tf == nil {
				return nil, false
			}
			swap := FuncV{Env: []Value{OpaqueV{"opaque-method:swapper"}, sl}}
			data := &StructV{F: []Value{args[1], swap}}
			n := ConstU(uint64(sl.Len), 64)
			var a []Value
			switch target {
			case "stable_func":
				a = []Value{data, n}
			case "pdqsort_func":
				a = []Value{data, ConstU(0, 64), n, ConstU(uint64(bits.Len(uint(sl.Len))), 64)}
			}
			e.callClosure(st, FuncV{Fn: tf}, a, func(st *State, res Value) {}, nil)
			return pendingV, true
		}
	}
	exact["sort.SliceStable"] = sortSlice("stable_func")
	exact["sort.Slice"] = sortSlice("pdqsort_func")

	api := "zzverif."
	exact[api+"TempDir"] = opaqueString("tmpdir")
	exact[api+"Symbolic"] = func(e *Engine, st *State, fn *ssa.Function, args []Value, retTo *ssa.Call) (Value, bool) {
		return True, true
	}
	exact[api+"Supervised"] = func(e *Engine, st *State, fn *ssa.Function, args []Value, retTo *ssa.Call) (Value, bool) {
		ctxT := args[0].(FuncV).Fn.Signature.Params().At(0).Type()
		e.callClosure(st, args[0], []Value{IfaceV{T: opaqueType, V: OpaqueV{"ctx"}}}, func(st *State, res Value) {}, nil)
		_ = ctxT
		return pendingV, true
	}
	exact[api+"PubKey"] = func(e *Engine, st *State, fn *ssa.Function, args []Value, retTo *ssa.Call) (Value, bool) {
		i := int(args[0].(*Term).Int64())
		e.keyAtoms(st, i)
		pk := zero(fn.Signature.Results().At(0).Type()).(*StructV)
		// ecdsa.PublicKey{Curve, X, Y}: tag X with the key id
		id := st.alloc(OpaqueV{fmt.Sprintf("pubkey:%d", i)})
		pk.F[1] = Ptr{Obj: id}
		return pk, true
	}
	exact["github.com/ethereum/go-ethereum/crypto.PubkeyToAddress"] = func(e *Engine, st *State, fn *ssa.Function, args []Value, retTo *ssa.Call) (Value, bool) {
		pk := args[0].(*StructV)
		p, ok := pk.F[1].(Ptr)
		if !ok || p.Obj == 0 {
			e.unsupported_(st, "PubkeyToAddress on unknown key")
			return nil, true
		}
		tag := st.obj(p.Obj).V.(OpaqueV).Tag
		var i int
		fmt.Sscanf(tag, "pubkey:%d", &i)
		addr, _ := e.keyAtoms(st, i)
		arr := &ArrayV{}
		for _, b := range bytesOfTerm(addr) {
			arr.E = append(arr.E, b)
		}
		return arr, true
	}

	// ---- VAAID key summary: injective encoding of the four fields (licensed by C12) ----
	exact["(*github.com/alephium/wormhole-fork/node/pkg/vaa.VAAID).Bytes"] = func(e *Engine, st *State, fn *ssa.Function, args []Value, retTo *ssa.Call) (Value, bool) {
		id := st.load(args[0].(Ptr)).(*StructV) // EmitterChain, EmitterAddress, TargetChain, Sequence
		var bs []*Term
		bs = append(bs, bytesOfTerm(id.F[0].(*Term))...)
		for _, b := range id.F[1].(*ArrayV).E {
			bs = append(bs, b.(*Term))
		}
		bs = append(bs, bytesOfTerm(id.F[2].(*Term))...)
		bs = append(bs, bytesOfTerm(id.F[3].(*Term))...)
		return st.newByteSlice(bs), true
	}

	// ---- badger ----
	bp := "github.com/dgraph-io/badger/v3."
	exact[bp+"DefaultOptions"] = func(e *Engine, st *State, fn *ssa.Function, args []Value, retTo *ssa.Call) (Value, bool) {
		return zero(fn.Signature.Results().At(0).Type()), true
	}
	exact[bp+"Open"] = func(e *Engine, st *State, fn *ssa.Function, args []Value, retTo *ssa.Call) (Value, bool) {
		kv := st.alloc(&MapObj{KT: types.Typ[types.String], VT: types.NewSlice(types.Typ[types.Byte])})
		db := st.alloc(MapV{kv})
		return TupleV{Ptr{Obj: db}, IfaceV{}}, true
	}
	closedKey := func(v Value) string { return "badger-closed:" + mkey(v) }
	txnCall := func(e *Engine, st *State, fn *ssa.Function, args []Value, retTo *ssa.Call) (Value, bool) {
		// a store fault the harness can provoke: transactions on a closed DB fail with badger.ErrDBClosed
		if getM(st, closedKey(args[0])) != 0 {
			p := e.prog.ImportedPackage("github.com/dgraph-io/badger/v3")
			e.modelsUsed["badger: transactions on a closed DB return ErrDBClosed"] = true
			return st.load(Ptr{Obj: e.globalObj(st, p.Var("ErrDBClosed"))}), true
		}
		// DB.Update(fn) / DB.View(fn): txn is the db pointer itself
		e.callClosure(st, args[1], []Value{args[0]}, func(st *State, res Value) {
			if retTo != nil {
				st.top().regs[retTo] = res
			}
		}, nil)
		return pendingV, true
	}
	exact["(*"+bp+"DB).Update"] = txnCall
	exact["(*"+bp+"DB).View"] = txnCall
	exact["(*"+bp+"DB).Close"] = func(e *Engine, st *State, fn *ssa.Function, args []Value, retTo *ssa.Call) (Value, bool) {
		setM(st, closedKey(args[0]), 1)
		return IfaceV{}, true
	}
	exact["(*"+bp+"Txn).Set"] = func(e *Engine, st *State, fn *ssa.Function, args []Value, retTo *ssa.Call) (Value, bool) {
		kv := e.kvOf(st, args[0])
		key := sliceToString(st, args[1].(SliceV))
		val := st.newByteSlice(st.sliceBytes(args[2].(SliceV)))
		// decide equality with existing keys first (forks), then store
		mo := st.obj(kv.Obj).V.(*MapObj)
		for i := range mo.Entries {
			c := e.equal(st, mo.Entries[i].K, key)
			if e.decide(st, c) {
				w := st.wobj(kv.Obj).V.(*MapObj)
				w.Entries[i].V = val
				return IfaceV{}, true
			}
			if st.status != Running {
				return nil, true
			}
		}
		w := st.wobj(kv.Obj).V.(*MapObj)
		w.Entries = append(w.Entries, MapEntry{K: key, V: val, Present: True})
		return IfaceV{}, true
	}
	exact["(*"+bp+"Txn).Get"] = func(e *Engine, st *State, fn *ssa.Function, args []Value, retTo *ssa.Call) (Value, bool) {
		kv := e.kvOf(st, args[0])
		key := sliceToString(st, args[1].(SliceV))
		mo := st.obj(kv.Obj).V.(*MapObj)
		for i := range mo.Entries {
			c := e.equal(st, mo.Entries[i].K, key)
			if e.decide(st, c) {
				item := st.alloc(mo.Entries[i].V)
				return TupleV{Ptr{Obj: item}, IfaceV{}}, true
			}
			if st.status != Running {
				return nil, true
			}
		}
		p := e.prog.ImportedPackage("github.com/dgraph-io/badger/v3")
		errV := st.load(Ptr{Obj: e.globalObj(st, p.Var("ErrKeyNotFound"))})
		return TupleV{Ptr{}, errV}, true
	}
	exact["(*"+bp+"Item).ValueSize"] = func(e *Engine, st *State, fn *ssa.Function, args []Value, retTo *ssa.Call) (Value, bool) {
		v := st.load(args[0].(Ptr)).(SliceV)
		return ConstU(uint64(v.Len), 64), true
	}
	exact["(*"+bp+"Item).ValueCopy"] = func(e *Engine, st *State, fn *ssa.Function, args []Value, retTo *ssa.Call) (Value, bool) {
		v := st.load(args[0].(Ptr)).(SliceV)
		return TupleV{st.newByteSlice(st.sliceBytes(v)), IfaceV{}}, true
	}

	// ---- badger iterators: visit exactly the present keys that have the Seek prefix, in LEXICOGRAPHIC key order (as
	// badger does): the next key is the smallest qualifying key not visited yet; qualification and order are decided by
	// the solver (forks). ----
	// iterator object: ArrayV{kv MapV, pos const, prefix StringV, visited-bitmask const}
	hasPrefix := func(key, prefix StringV) *Term {
		if len(prefix.B) > len(key.B) {
			return False
		}
		if len(prefix.B) == 0 {
			return True
		}
		return wideEq(key.B[:len(prefix.B)], prefix.B)
	}
	strLess := func(a, b StringV) *Term {
		n := len(a.B)
		if len(b.B) < n {
			n = len(b.B)
		}
		res := ConstBool(len(a.B) < len(b.B))
		for i := n - 1; i >= 0; i-- {
			res = Ite(Eq(a.B[i], b.B[i]), res, BVUlt(a.B[i], b.B[i]))
		}
		return res
	}
	// advance returns the position of the smallest qualifying key that is not in the visited mask (forks; the calling
	// instruction is re-executed in the clones, so no state is written before the decision is complete)
	advance := func(e *Engine, st *State, kv MapV, visited uint64, prefix StringV) int {
		mo := st.obj(kv.Obj).V.(*MapObj)
		best := -1
		for i := 0; i < len(mo.Entries) && i < 64; i++ {
			if visited&(1<<uint(i)) != 0 {
				continue
			}
			c := And(mo.Entries[i].Present, hasPrefix(mo.Entries[i].K.(StringV), prefix))
			q := e.decide(st, c)
			if st.status != Running {
				return -1
			}
			if !q {
				continue
			}
			if best < 0 {
				best = i
				continue
			}
			less := e.decide(st, strLess(mo.Entries[i].K.(StringV), mo.Entries[best].K.(StringV)))
			if st.status != Running {
				return -1
			}
			if less {
				best = i
			}
		}
		if best < 0 {
			return len(mo.Entries)
		}
		return best
	}
	exact["(*"+bp+"Txn).NewIterator"] = func(e *Engine, st *State, fn *ssa.Function, args []Value, retTo *ssa.Call) (Value, bool) {
		kv := e.kvOf(st, args[0])
		id := st.alloc(&ArrayV{E: []Value{kv, ConstU(1<<30, 64), StringV{}, ConstU(0, 64)}})
		return Ptr{Obj: id}, true
	}
	exact["(*"+bp+"Iterator).Close"] = noop
	exact["(*"+bp+"Iterator).Seek"] = func(e *Engine, st *State, fn *ssa.Function, args []Value, retTo *ssa.Call) (Value, bool) {
		it := args[0].(Ptr)
		o := st.obj(it.Obj).V.(*ArrayV)
		prefix := sliceToString(st, args[1].(SliceV))
		pos := advance(e, st, o.E[0].(MapV), 0, prefix)
		if st.status != Running {
			return nil, true
		}
		w := st.wobj(it.Obj).V.(*ArrayV)
		w.E[1], w.E[2], w.E[3] = ConstU(uint64(pos), 64), prefix, ConstU(0, 64)
		return nil, true
	}
	exact["(*"+bp+"Iterator).Next"] = func(e *Engine, st *State, fn *ssa.Function, args []Value, retTo *ssa.Call) (Value, bool) {
		it := args[0].(Ptr)
		o := st.obj(it.Obj).V.(*ArrayV)
		cur := int(o.E[1].(*Term).Int64())
		visited := o.E[3].(*Term).Uint64()
		if cur < 64 {
			visited |= 1 << uint(cur)
		}
		pos := advance(e, st, o.E[0].(MapV), visited, o.E[2].(StringV))
		if st.status != Running {
			return nil, true
		}
		w := st.wobj(it.Obj).V.(*ArrayV)
		w.E[1], w.E[3] = ConstU(uint64(pos), 64), ConstU(visited, 64)
		return nil, true
	}
	exact["(*"+bp+"Iterator).ValidForPrefix"] = func(e *Engine, st *State, fn *ssa.Function, args []Value, retTo *ssa.Call) (Value, bool) {
		o := st.obj(args[0].(Ptr).Obj).V.(*ArrayV)
		mo := st.obj(o.E[0].(MapV).Obj).V.(*MapObj)
		return ConstBool(int(o.E[1].(*Term).Int64()) < len(mo.Entries)), true
	}
	exact["(*"+bp+"Iterator).Item"] = func(e *Engine, st *State, fn *ssa.Function, args []Value, retTo *ssa.Call) (Value, bool) {
		o := st.obj(args[0].(Ptr).Obj).V.(*ArrayV)
		mo := st.obj(o.E[0].(MapV).Obj).V.(*MapObj)
		pos := int(o.E[1].(*Term).Int64())
		if pos >= len(mo.Entries) {
			return Ptr{}, true
		}
		en := mo.Entries[pos]
		id := st.alloc(&ArrayV{E: []Value{en.V, en.K}})
		return Ptr{Obj: id, Path: []int{0}}, true
	}
	exact["(*"+bp+"Item).Key"] = func(e *Engine, st *State, fn *ssa.Function, args []Value, retTo *ssa.Call) (Value, bool) {
		p := args[0].(Ptr)
		if len(p.Path) == 0 {
			e.unsupported_(st, "Item.Key on an item obtained from Get")
			return nil, true
		}
		k := st.obj(p.Obj).V.(*ArrayV).E[1].(StringV)
		return st.newByteSlice(k.B), true
	}
	exact["(*"+bp+"Item).Value"] = func(e *Engine, st *State, fn *ssa.Function, args []Value, retTo *ssa.Call) (Value, bool) {
		v := st.load(args[0].(Ptr)).(SliceV)
		e.callClosure(st, args[1], []Value{v}, func(st *State, res Value) {
			if retTo != nil {
				st.top().regs[retTo] = res
			}
		}, nil)
		return pendingV, true
	}
	exact["fmt.Printf"] = noop
	exact["fmt.Println"] = noop

	// ---- sync.Pool: LIFO free list; Get returns a pooled object (if any) or New() ----
	// struct Pool{noCopy, local, localSize, victim, victimSize, New}: the model keeps the free list in a side object
	// hung off field `local` (unsafe.Pointer slot is unused by the model).
	exact["(*sync.Pool).Put"] = func(e *Engine, st *State, fn *ssa.Function, args []Value, retTo *ssa.Call) (Value, bool) {
		pp := args[0].(Ptr)
		cell := Ptr{pp.Obj, pathAppend(pp.Path, 1)}
		cur, _ := st.load(cell).(Ptr)
		var items []Value
		if cur.Obj != 0 {
			items = append(items, st.obj(cur.Obj).V.(*ArrayV).E...)
		}
		items = append(items, args[1])
		st.store(cell, Ptr{Obj: st.alloc(&ArrayV{E: items})})
		return nil, true
	}
	exact["(*sync.Pool).Get"] = func(e *Engine, st *State, fn *ssa.Function, args []Value, retTo *ssa.Call) (Value, bool) {
		pp := args[0].(Ptr)
		cell := Ptr{pp.Obj, pathAppend(pp.Path, 1)}
		cur, _ := st.load(cell).(Ptr)
		if cur.Obj != 0 {
			items := st.obj(cur.Obj).V.(*ArrayV).E
			if n := len(items); n > 0 {
				it := items[n-1]
				st.store(cell, Ptr{Obj: st.alloc(&ArrayV{E: append([]Value(nil), items[:n-1]...)})})
				return it, true
			}
		}
		// New is the last field
		ps := st.load(pp).(*StructV)
		newFn, _ := ps.F[len(ps.F)-1].(FuncV)
		if newFn.Fn == nil {
			return IfaceV{}, true
		}
		e.callClosure(st, newFn, nil, func(st *State, res Value) {
			if retTo != nil {
				st.top().regs[retTo] = res
			}
		}, nil)
		return pendingV, true
	}

	// ---- protobuf ----
	exact["google.golang.org/protobuf/proto.Marshal"] = func(e *Engine, st *State, fn *ssa.Function, args []Value, retTo *ssa.Call) (Value, bool) {
		m := args[0].(IfaceV)
		// opaque 4-byte handle; the message pointer is remembered in the backing object's extra cell
		arr := &ArrayV{E: []Value{ConstU('P', 8), ConstU('B', 8), ConstU(0, 8), ConstU(0, 8), m}}
		id := st.alloc(arr)
		return TupleV{SliceV{Obj: id, Len: 4, Cap: 4}, IfaceV{}}, true
	}
	exact["google.golang.org/protobuf/proto.Unmarshal"] = func(e *Engine, st *State, fn *ssa.Function, args []Value, retTo *ssa.Call) (Value, bool) {
		b := args[0].(SliceV)
		dst := args[1].(IfaceV)
		if b.Obj != 0 {
			arr := st.obj(b.Obj).V.(*ArrayV)
			if len(arr.E) == 5 {
				if src, ok := arr.E[4].(IfaceV); ok && types.Identical(src.T, dst.T) {
					st.store(dst.V.(Ptr), st.load(src.V.(Ptr)))
					return IfaceV{}, true
				}
			}
		}
		// untagged (attacker-supplied) bytes: decoding fails or yields an arbitrary message; the fields are left
		// zero here (spike) - callers in scope only store or forward the decoded message
		if e.decide(st, st.freshOnce("proto.unmarshal.fails", b.Obj)) {
			return e.opaqueErr("proto: cannot parse"), true
		}
		return IfaceV{}, true
	}

	// ---- time ----
	exact["time.Now"] = func(e *Engine, st *State, fn *ssa.Function, args []Value, retTo *ssa.Call) (Value, bool) {
		return e.timeNow(st, fn.Signature.Results().At(0).Type()), true
	}
	exact["(time.Time).Sub"] = func(e *Engine, st *State, fn *ssa.Function, args []Value, retTo *ssa.Call) (Value, bool) {
		return timeSub(args[0].(*StructV), args[1].(*StructV)), true
	}
	// Duration.Hours/Minutes/Seconds: the real stdlib body is executed (integer div/rem, int->float64, fp.div, fp.add);
	// the result is wrapped so that a later comparison with a float constant can be replaced by the integer comparison
	// d >= c*unit - but only after that equivalence has been PROVED on this very FP term for all 64-bit d (durLemma).
	for _, unit := range []string{"Hours", "Minutes", "Seconds"} {
		unit := unit
		exact["(time.Duration)."+unit] = func(e *Engine, st *State, fn *ssa.Function, args []Value, retTo *ssa.Call) (Value, bool) {
			d := args[0].(*Term)
			if durExec {
				return nil, false // plain execution (used while proving the lemma)
			}
			durExec = true
			f := e.callSync(st, FuncV{Fn: fn}, []Value{d})
			durExec = false
			ft, ok := f.(*Term)
			if !ok || st.status != Running {
				return nil, true
			}
			return TS.intern(&Term{op: "durcall", sort: FPSort, name: unit, args: []*Term{d, ft}}), true
		}
	}
	exact["(time.Time).UnixMilli"] = func(e *Engine, st *State, fn *ssa.Function, args []Value, retTo *ssa.Call) (Value, bool) {
		if t, ok := args[0].(*StructV); ok {
			if w, ok := t.F[0].(*Term); ok {
				if ms, ok := st.msOf[w.id]; ok {
					st.usedUnixMilli = true
					return ms, true
				}
			}
		}
		return nil, false
	}
	exact[api+"Now"] = exact["time.Now"]
	exact[api+"Since"] = func(e *Engine, st *State, fn *ssa.Function, args []Value, retTo *ssa.Call) (Value, bool) {
		now := e.timeNow(st, fn.Signature.Params().At(0).Type()).(*StructV)
		return timeSub(now, args[0].(*StructV)), true
	}
	exact["time.Since"] = func(e *Engine, st *State, fn *ssa.Function, args []Value, retTo *ssa.Call) (Value, bool) {
		now := e.timeNow(st, fn.Signature.Params().At(0).Type()).(*StructV)
		return timeSub(now, args[0].(*StructV)), true
	}
	_ = strings.HasPrefix
}

const unixToInternal = (1969*365 + 1969/4 - 1969/100 + 1969/400) * 86400

// time.Time{wall uint64, ext int64, loc *Location}. Model instants CARRY A MONOTONIC READING (as real time.Now() values
// do): wall = hasMonotonic | sec33<<30 | nsec30 with unconstrained wall-clock parts, ext = monotonic nanoseconds.
// Sub/Since/Before/After/Equal between two such instants then are - in the real stdlib code - plain 64-bit
// subtraction/comparison of the monotonic readings, so no multiplication by 10^9 ever reaches the solver.
// Readings are non-decreasing and lie in [0, 2^61) ns (73 years of uptime).
func (e *Engine) timeNow(st *State, t types.Type) Value {
	tv := zero(t).(*StructV)
	mono := st.fresh("now.mono", BV(64))
	wsec := st.fresh("now.wallsec", BV(33))
	wns := st.fresh("now.wallnsec", BV(30))
	st.assume(BVUlt(mono, ConstU(1<<61, 64)))
	st.assume(BVUlt(wns, ConstU(1000000000, 30)))
	// wall clock between 2020 and 2088 (seconds since 1885)
	st.assume(BVUge(wsec, ConstU(4260211200, 33)))
	st.assume(BVUlt(wsec, ConstU(4260211200+(1<<31), 33)))
	wall := Concat(wsec, wns) // 63 bits: seconds since 1885 then nanoseconds - ordered like the instant itself
	if last, ok := st.lastNow(); ok {
		st.assume(BVUge(mono, last[0]))
		st.assume(BVUge(wall, last[1])) // the harness wall clock does not jump backwards either
	}
	// a millisecond reading of the same instant for (time.Time).UnixMilli, kept as its own non-decreasing variable so
	// that no division by 10^6 reaches the solver (code in scope uses either Sub/Since or UnixMilli on a clock value)
	ms := st.fresh("now.ms", BV(64))
	st.assume(BVUge(ms, ConstU(1500000000000, 64)))
	st.assume(BVUlt(ms, ConstU(4000000000000, 64)))
	if st.lastMs != nil {
		st.assume(BVUge(ms, st.lastMs))
	}
	st.lastMs = ms
	st.setLastNow(mono, wall)
	st.nondet[len(st.nondet)-1].Many = append(st.nondet[len(st.nondet)-1].Many, ms)
	tv.F[0] = Concat(ConstU(1, 1), Concat(wsec, wns))
	if st.msOf == nil {
		st.msOf = map[int]*Term{}
	}
	st.msOf[tv.F[0].(*Term).id] = ms
	tv.F[1] = mono
	return tv
}

var lastNowKey = map[*State][2]*Term{}

func (st *State) lastNow() ([2]*Term, bool) {
	for i := len(st.nondet) - 1; i >= 0; i-- {
		if st.nondet[i].Kind == "now" {
			return [2]*Term{st.nondet[i].Many[0], st.nondet[i].Many[1]}, true
		}
	}
	return [2]*Term{}, false
}
func (st *State) setLastNow(sec, nsec *Term) {
	st.nondet = append(st.nondet, NondetRec{Name: "now", Kind: "now", Many: []*Term{sec, nsec}})
}

func timeParts(t *StructV) (sec, nsec *Term) {
	wall := t.F[0].(*Term)
	ext := t.F[1].(*Term)
	// hasMonotonic = wall>>63; model instants never set it; for safety follow the stdlib's formula
	hasMono := Eq(Extract(63, 63, wall), ConstU(1, 1))
	nsec = ZeroExt(Extract(29, 0, wall), 64)
	wallSec := BVAdd(ConstU(uint64((1884*365+1884/4-1884/100+1884/400)*86400), 64), ZeroExt(Extract(62, 30, wall), 64))
	sec = Ite(hasMono, wallSec, ext)
	return
}

// exact t.Sub(u) with saturation, computed in 128 bits (see DESIGN §4.3)
func timeSub(t, u *StructV) Value {
	tw, uw := t.F[0].(*Term), u.F[0].(*Term)
	tm, um := Extract(63, 63, tw), Extract(63, 63, uw)
	if tm.IsConst() && um.IsConst() && tm.Uint64() == 1 && um.Uint64() == 1 {
		// both carry monotonic readings: stdlib subMono (saturating 64-bit subtraction)
		a, b := t.F[1].(*Term), u.F[1].(*Term)
		d := BVSub(a, b)
		maxD := ConstU(1<<63-1, 64)
		minD := ConstBV(new(big.Int).Neg(new(big.Int).Lsh(big.NewInt(1), 63)), 64)
		return Ite(And(BVSlt(d, ConstU(0, 64)), BVSgt(a, b)), maxD, Ite(And(BVSgt(d, ConstU(0, 64)), BVSlt(a, b)), minD, d))
	}
	if tm.IsConst() && tm.Uint64() == 1 && uw.IsConst() && u.F[1].(*Term).IsConst() && u.F[1].(*Term).Int64() < 56802297600 {
		// model instant (wall clock >= 2020) minus a concrete instant before year 1800 (the zero Time): > 292 years, saturates
		return ConstU(1<<63-1, 64)
	}
	ts, tn := timeParts(t)
	us, un := timeParts(u)
	ds := SignExt(BVSub(ts, us), 128) // |Δsec| < 2^63 assumed representable (both are int64 seconds)
	// true Δsec may overflow int64 subtraction only for instants > 292e9 years apart; stdlib has the same wrap
	dn := SignExt(BVSub(tn, un), 128)
	d := BVAdd(BVMul(ds, ConstBV(big.NewInt(1000000000), 128)), dn)
	maxD := ConstBV(new(big.Int).SetUint64(1<<63-1), 128)
	minD := ConstBV(new(big.Int).Neg(new(big.Int).Lsh(big.NewInt(1), 63)), 128)
	sat := Ite(BVSgt(d, maxD), maxD, Ite(BVSlt(d, minD), minD, d))
	return Extract(63, 0, sat)
}

var durExec bool

type durKey struct {
	unit string
	op   string
	c    float64
}

var durLemmas = map[durKey]*big.Int{} // proven: (unit(d) op c) <=> (d op' T); nil entry = not provable

var unitNs = map[string]float64{"Hours": 3.6e12, "Minutes": 6e10, "Seconds": 1e9}

// durCompare tries to replace `durcall(d) op c` by an integer comparison. Returns nil if no proven lemma applies.
func (e *Engine) durCompare(op string, x, y *Term) *Term {
	if x.op != "durcall" {
		return nil
	}
	c, ok := fpVals[y]
	if !ok {
		return nil
	}
	k := durKey{x.name, op, c}
	T, seen := durLemmas[k]
	if !seen {
		T = e.proveDurLemma(k, x)
		durLemmas[k] = T
	}
	if T == nil {
		return nil
	}
	d, lim := x.args[0], ConstBV(T, 64)
	switch op {
	case "fp.geq":
		return BVSge(d, lim)
	case "fp.gt":
		return BVSgt(d, lim)
	case "fp.lt":
		return BVSlt(d, lim)
	case "fp.leq":
		return BVSle(d, lim)
	}
	return nil
}

// proveDurLemma: for ALL 64-bit d, (F(d) op c) <=> (d op T) with T = c*unit, where F is the FP term obtained by
// executing the real time.Duration method symbolically. Decided by a fresh solver; nil if c*unit is not an integer
// or the solver does not answer unsat.
func (e *Engine) proveDurLemma(k durKey, sample *Term) *big.Int {
	u := k.c * unitNs[k.unit]
	if u != float64(int64(u)) || u <= 0 {
		return nil
	}
	T := big.NewInt(int64(u))
	// re-instantiate F on a fresh variable by substitution d -> lemma var
	dv := Var("lemma.d."+k.unit, BV(64))
	F := substTerm(sample.args[1], sample.args[0], dv, map[int]*Term{})
	var fp, iv *Term
	lim := ConstBV(T, 64)
	switch k.op {
	case "fp.geq":
		fp, iv = mk("fp.geq", BoolSort, F, FPConst(k.c)), BVSge(dv, lim)
	case "fp.gt":
		fp, iv = mk("fp.gt", BoolSort, F, FPConst(k.c)), BVSgt(dv, lim)
	case "fp.lt":
		fp, iv = mk("fp.lt", BoolSort, F, FPConst(k.c)), BVSlt(dv, lim)
	case "fp.leq":
		fp, iv = mk("fp.leq", BoolSort, F, FPConst(k.c)), BVSle(dv, lim)
	default:
		return nil
	}
	s, err := newSolverMode("z3", 120000, false)
	if err != nil {
		return nil
	}
	defer s.Close()
	t0 := time.Now()
	r := s.Check([]*Term{Not(Eq(fp, iv))})
	e.modelsUsed[fmt.Sprintf("lemma: Duration.%s() %s %v <=> d %s %s ns: %v in %.1fs (proved on the SSA-executed stdlib body, all 64-bit d)", k.unit, k.op, k.c, k.op[3:], T, r, time.Since(t0).Seconds())] = true
	if r != Unsat {
		return nil
	}
	return T
}

func substTerm(t, from, to *Term, memo map[int]*Term) *Term {
	if t == from {
		return to
	}
	if len(t.args) == 0 {
		return t
	}
	if r, ok := memo[t.id]; ok {
		return r
	}
	args := make([]*Term, len(t.args))
	changed := false
	for i, a := range t.args {
		args[i] = substTerm(a, from, to, memo)
		if args[i] != a {
			changed = true
		}
	}
	r := t
	if changed {
		r = TS.intern(&Term{op: t.op, sort: t.sort, args: args, val: t.val, name: t.name, p1: t.p1, p2: t.p2})
	}
	memo[t.id] = r
	return r
}
