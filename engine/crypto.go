package main

import (
	"fmt"

	"golang.org/x/tools/go/ssa"
)

// abstract keys: address atom, public-key atom, and the axiom linking them through the keccak UF.
func (e *Engine) keyAtoms(st *State, i int) (addr *Term, pub *Term) {
	addr = Var(fmt.Sprintf("@addr:%d", i), BV(160))
	pub = Var(fmt.Sprintf("@pub:%d", i), BV(512))
	flag := fmt.Sprintf("key-axiom:%d", i)
	if st.nameCnt[flag] == 0 {
		st.nameCnt[flag] = 1
		h := UF("keccak_64", BV(256), pub)
		// built without the Extract rewrite rule (which would fold this very axiom to true)
		raw := TS.intern(&Term{op: "extract", sort: BV(160), args: []*Term{h}, p1: 159, p2: 0})
		st.assume(mk("=", BoolSort, addr, raw))
		// the syntactic "distinct atoms" shortcut in Eq must be backed by an axiom the solver sees
		for j := 0; j < st.nameCnt["keys"]; j++ {
			if j != i {
				st.assume(Not(mk("=", BoolSort, Var(fmt.Sprintf("@addr:%d", j), BV(160)), addr)))
			}
		}
		st.nameCnt["keys"] = max(st.nameCnt["keys"], i+1)
	}
	return
}

func bytesOfTerm(t *Term) []*Term {
	n := t.sort.W / 8
	out := make([]*Term, n)
	for i := 0; i < n; i++ {
		out[i] = Extract(t.sort.W-1-8*i, t.sort.W-8-8*i, t)
	}
	return out
}

// termOfBytes concatenates bytes (big-endian) as a balanced tree for long inputs, so that neither the term DAG nor the
// per-term symbol sets grow quadratically.
func termOfBytes(bs []*Term) *Term {
	if len(bs) <= 72 {
		t := bs[0]
		for _, b := range bs[1:] {
			t = Concat(t, b)
		}
		return t
	}
	// split at a multiple of 64 so that equal suffix/prefix chunks are shared between applications
	h := (len(bs) / 2 / 64) * 64
	if h == 0 {
		h = len(bs) / 2
	}
	return Concat(termOfBytes(bs[:h]), termOfBytes(bs[h:]))
}

func init() {
	api := "zzverif."
	exact[api+"AssumeCollisionFree"] = func(e *Engine, st *State, fn *ssa.Function, args []Value, retTo *ssa.Call) (Value, bool) {
		ks := st.keccaks
		for i := 0; i < len(ks); i++ {
			for j := i + 1; j < len(ks); j++ {
				a, b := ks[i], ks[j]
				if a.in == nil || b.in == nil || a.in == b.in {
					continue
				}
				if a.in.sort != b.in.sort {
					st.assume(Not(mk("=", BoolSort, a.out, b.out)))
				} else {
					st.assume(Or(Eq(a.in, b.in), Not(Eq(a.out, b.out))))
				}
			}
		}
		return nil, true
	}
	exact[api+"AddrOf"] = func(e *Engine, st *State, fn *ssa.Function, args []Value, retTo *ssa.Call) (Value, bool) {
		i := int(args[0].(*Term).Int64())
		addr, _ := e.keyAtoms(st, i)
		arr := &ArrayV{}
		for _, b := range bytesOfTerm(addr) {
			arr.E = append(arr.E, b)
		}
		return arr, true
	}
	exact[api+"SignBy"] = func(e *Engine, st *State, fn *ssa.Function, args []Value, retTo *ssa.Call) (Value, bool) {
		i := int(args[0].(*Term).Int64())
		e.keyAtoms(st, i)
		dg := st.sliceBytes(args[1].(SliceV))
		if len(dg) != 32 {
			e.unsupported_(st, "SignBy digest must be 32 bytes")
			return nil, true
		}
		// one 520-bit variable per signature (its bytes are extracts), so that re-assembled signatures fold back to
		// the variable and (digest, signature) comparisons stay small
		ns := st.fresh("sig", BV(520))
		bs := bytesOfTerm(ns)
		st.assume(BVUlt(bs[64], ConstU(4, 8))) // valid recovery id
		st.assume(Not(Eq(Extract(519, 264, ns), ConstU(0, 256)))) // r != 0
		nd := termOfBytes(dg)
		for _, r := range st.sigs {
			if r.key != i {
				// a (digest, signature) pair recovers to exactly one key
				st.assume(Not(And(Eq(nd, r.digest), mk("=", BoolSort, ns, r.sig))))
			}
		}
		st.sigs = append(st.sigs, sigReg{digest: nd, sig: ns, key: i})
		return st.newByteSlice(bs), true
	}
	// MalformedSig(name): 65 bytes on which signature recovery fails for every digest (natively: r = 0)
	exact[api+"MalformedSig"] = func(e *Engine, st *State, fn *ssa.Function, args []Value, retTo *ssa.Call) (Value, bool) {
		name := strArg(args[0])
		t := st.fresh(name, BV(520))
		e.recordNondet(st, name, "blob", t, nil, 65)
		st.assume(Eq(Extract(519, 264, t), ConstU(0, 256))) // r = 0
		st.badSigs = append(st.badSigs, t)
		return st.newByteSlice(bytesOfTerm(t)), true
	}
	exact["github.com/ethereum/go-ethereum/crypto.Ecrecover"] = func(e *Engine, st *State, fn *ssa.Function, args []Value, retTo *ssa.Call) (Value, bool) {
		h := args[0].(SliceV)
		sg := args[1].(SliceV)
		errV := func(tag string) Value { return TupleV{SliceV{}, e.opaqueErr(tag)} }
		if h.Len != 32 {
			return errV("invalid message length, need 32 bytes"), true
		}
		if sg.Len != 65 {
			return errV("invalid signature length"), true
		}
		hb, sb := st.sliceBytes(h), st.sliceBytes(sg)
		D, S := termOfBytes(hb), termOfBytes(sb)
		// honest fast path: exactly a registered (digest, signature) pair, syntactically
		for _, r := range st.sigs {
			if r.sig == S && r.digest == D {
				_, p := e.keyAtoms(st, r.key)
				out := append([]*Term{ConstU(4, 8)}, bytesOfTerm(p)...)
				return TupleV{st.newByteSlice(out), IfaceV{}}, true
			}
		}
		badV := BVUge(sb[64], ConstU(4, 8))
		// outsider result: fresh public key whose address differs from every harness key
		fr := UF("ecrec_pub", BV(512), D, S) // functional: same (digest, signature) -> same result
		outs := fr
		nkeys := st.nameCnt["keys"]
		for i := 0; i < nkeys; i++ {
			addr, _ := e.keyAtoms(st, i)
			st.assume(Not(Eq(Extract(159, 0, UF("keccak_64", BV(256), fr)), addr)))
		}
		failFresh := UF("ecrec_fail", BoolSort, D, S)
		pub := outs
		matched := False
		for k := len(st.sigs) - 1; k >= 0; k-- {
			r := st.sigs[k]
			m := And(Eq(D, r.digest), Eq(S, r.sig))
			_, p := e.keyAtoms(st, r.key)
			pub = Ite(m, p, pub)
			matched = Or(matched, m)
		}
		// r = 0 can never be recovered (secp256k1 requires 1 <= r < N); this also makes such counterexamples replayable
		rZero := Eq(Extract(519, 264, S), ConstU(0, 256))
		fail := Or(Or(badV, rZero), And(Not(matched), failFresh))
		// fork on failure
		ft := e.feasible(st, fail)
		ff := e.feasible(st, Not(fail))
		mkOK := func(s *State) Value {
			out := append([]*Term{ConstU(4, 8)}, bytesOfTerm(pub)...)
			return TupleV{s.newByteSlice(out), IfaceV{}}
		}
		switch {
		case ft && ff:
			o := st.clone()
			o.assume(fail)
			if retTo != nil {
				o.top().regs[retTo] = errV("recovery failed")
			}
			e.pushWork(o)
			e.stats.forks++
			st.assume(Not(fail))
			return mkOK(st), true
		case ft:
			return errV("recovery failed"), true
		case ff:
			return mkOK(st), true
		}
		st.status = Infeasible
		return nil, true
	}
}
