package main

import (
	"fmt"
	"go/token"
	"go/types"

	"golang.org/x/tools/go/ssa"
)

// ---------- binary operators ----------

func (e *Engine) binop(st *State, op token.Token, a, b Value, t types.Type, instr *ssa.BinOp) Value {
	switch op {
	case token.EQL:
		return e.equal(st, a, b)
	case token.NEQ:
		r := e.equal(st, a, b)
		if r == nil {
			return nil
		}
		return Not(r)
	}
	// strings
	if sa, ok := a.(StringV); ok {
		sb := b.(StringV)
		switch op {
		case token.ADD:
			return StringV{append(append([]*Term{}, sa.B...), sb.B...)}
		case token.LSS, token.LEQ, token.GTR, token.GEQ:
			return e.stringCmp(op, sa, sb)
		}
		e.unsupported_(st, "string op "+op.String())
		return nil
	}
	// abi.NoEscape: unsafe.Pointer(uintptr(p) ^ 0)
	if pa, isPtr := a.(Ptr); isPtr && op == token.XOR {
		if yt, ok := b.(*Term); ok && yt.IsConst() && yt.val.Sign() == 0 {
			return pa
		}
	}
	x, okx := a.(*Term)
	y, oky := b.(*Term)
	if !okx || !oky {
		e.unsupported_(st, fmt.Sprintf("binop %s on %T,%T", op, a, b))
		return nil
	}
	if x.sort.K == SFP64 {
		switch op {
		case token.ADD:
			return mk("fp.add", FPSort, x, y)
		case token.SUB:
			return mk("fp.sub", FPSort, x, y)
		case token.MUL:
			return mk("fp.mul", FPSort, x, y)
		case token.QUO:
			return mk("fp.div", FPSort, x, y)
		case token.LSS, token.LEQ, token.GTR, token.GEQ:
			name := map[token.Token]string{token.LSS: "fp.lt", token.LEQ: "fp.leq", token.GTR: "fp.gt", token.GEQ: "fp.geq"}[op]
			if r := e.durCompare(name, x, y); r != nil {
				return r
			}
			return mk(name, BoolSort, x, y)
		}
		e.unsupported_(st, "float op "+op.String())
		return nil
	}
	if x.sort.K == SBool {
		switch op {
		case token.AND:
			return And(x, y)
		case token.OR:
			return Or(x, y)
		case token.XOR:
			return Not(Eq(x, y))
		}
	}
	w, signed, _ := intWidth(t)
	switch op {
	case token.ADD:
		return BVAdd(x, y)
	case token.SUB:
		return BVSub(x, y)
	case token.MUL:
		return BVMul(x, y)
	case token.QUO, token.REM:
		zeroDiv := Eq(y, ConstU(0, w))
		if !zeroDiv.IsFalse() {
			if e.feasible(st, zeroDiv) {
				if e.feasible(st, Not(zeroDiv)) {
					o := st.clone()
					o.assume(zeroDiv)
					e.goPanic(o, "integer divide by zero", nil)
					e.pushWork(o)
					st.assume(Not(zeroDiv))
				} else {
					e.goPanic(st, "integer divide by zero", nil)
					return nil
				}
			}
		}
		if op == token.QUO {
			if signed {
				return BVSDiv(x, y)
			}
			return BVUDiv(x, y)
		}
		if signed {
			return BVSRem(x, y)
		}
		return BVURem(x, y)
	case token.AND:
		return BVAnd(x, y)
	case token.OR:
		return BVOr(x, y)
	case token.XOR:
		return BVXor(x, y)
	case token.AND_NOT:
		return BVAnd(x, BVNot(y))
	case token.SHL, token.SHR:
		// shift count y has its own type; normalise to width w, saturating
		yw, ysigned, _ := intWidth(instr.Y.Type())
		cnt := y
		if ysigned {
			neg := BVSlt(cnt, ConstU(0, yw))
			if !neg.IsFalse() && e.feasible(st, neg) {
				if e.feasible(st, Not(neg)) {
					o := st.clone()
					o.assume(neg)
					e.goPanic(o, "negative shift amount", nil)
					e.pushWork(o)
					st.assume(Not(neg))
				} else {
					e.goPanic(st, "negative shift amount", nil)
					return nil
				}
			}
		}
		var c *Term
		if yw > w {
			big := BVUge(cnt, ConstU(uint64(w), yw))
			c = Ite(big, ConstU(uint64(w), w), Extract(w-1, 0, cnt))
		} else {
			c = ZeroExt(cnt, w)
		}
		if op == token.SHL {
			return BVShl(x, c)
		}
		if signed {
			return BVAshr(x, c)
		}
		return BVLshr(x, c)
	case token.LSS:
		if signed {
			return BVSlt(x, y)
		}
		return BVUlt(x, y)
	case token.LEQ:
		if signed {
			return BVSle(x, y)
		}
		return BVUle(x, y)
	case token.GTR:
		if signed {
			return BVSgt(x, y)
		}
		return BVUgt(x, y)
	case token.GEQ:
		if signed {
			return BVSge(x, y)
		}
		return BVUge(x, y)
	}
	e.unsupported_(st, "binop "+op.String())
	return nil
}

func (e *Engine) stringCmp(op token.Token, a, b StringV) *Term {
	// lexicographic compare as term
	n := len(a.B)
	if len(b.B) < n {
		n = len(b.B)
	}
	// lt: exists i: prefix equal and a[i]<b[i], or all n equal and len(a)<len(b)
	lt := ConstBool(len(a.B) < len(b.B))
	eq := ConstBool(len(a.B) == len(b.B))
	for i := n - 1; i >= 0; i-- {
		lt = Or(BVUlt(a.B[i], b.B[i]), And(Eq(a.B[i], b.B[i]), lt))
		eq = And(Eq(a.B[i], b.B[i]), eq)
	}
	switch op {
	case token.LSS:
		return lt
	case token.LEQ:
		return Or(lt, eq)
	case token.GTR:
		return Not(Or(lt, eq))
	default:
		return Not(lt)
	}
}

func (e *Engine) equal(st *State, a, b Value) *Term {
	switch x := a.(type) {
	case *Term:
		y, ok := b.(*Term)
		if !ok {
			e.unsupported_(st, "eq term vs non-term")
			return nil
		}
		if x.sort.K == SFP64 {
			return mk("fp.eq", BoolSort, x, y)
		}
		return Eq(x, y)
	case StringV:
		y := b.(StringV)
		if len(x.B) != len(y.B) {
			return False
		}
		if len(x.B) >= 2 {
			return wideEq(x.B, y.B)
		}
		r := True
		for i := range x.B {
			r = And(r, Eq(x.B[i], y.B[i]))
		}
		return r
	case Ptr:
		y, ok := b.(Ptr)
		if !ok {
			return False
		}
		if x.Obj != y.Obj || len(x.Path) != len(y.Path) {
			return False
		}
		for i := range x.Path {
			if x.Path[i] != y.Path[i] {
				return False
			}
		}
		return True
	case *ArrayV:
		y := b.(*ArrayV)
		if len(x.E) >= 2 {
			if xs, ok := byteTerms(x.E); ok {
				if ys, ok := byteTerms(y.E); ok {
					return wideEq(xs, ys)
				}
			}
		}
		r := True
		for i := range x.E {
			c := e.equal(st, x.E[i], y.E[i])
			if c == nil {
				return nil
			}
			r = And(r, c)
		}
		return r
	case *StructV:
		y := b.(*StructV)
		r := True
		for i := range x.F {
			c := e.equal(st, x.F[i], y.F[i])
			if c == nil {
				return nil
			}
			r = And(r, c)
		}
		return r
	case IfaceV:
		y, ok := b.(IfaceV)
		if !ok {
			e.unsupported_(st, "eq iface vs non-iface")
			return nil
		}
		if x.T == nil || y.T == nil {
			return ConstBool(x.T == nil && y.T == nil)
		}
		if !types.Identical(x.T, y.T) {
			return False
		}
		return e.equal(st, x.V, y.V)
	case SliceV:
		y := b.(SliceV)
		// only comparison with nil is legal
		if y.Obj == 0 && y.Len == 0 {
			return ConstBool(x.Obj == 0)
		}
		if x.Obj == 0 && x.Len == 0 {
			return ConstBool(y.Obj == 0)
		}
	case MapV:
		y := b.(MapV)
		return ConstBool(x.Obj == y.Obj)
	case ChanV:
		y := b.(ChanV)
		return ConstBool(x.Obj == y.Obj)
	case FuncV:
		y := b.(FuncV)
		return ConstBool(x.Fn == nil && x.Builtin == nil && y.Fn == nil && y.Builtin == nil)
	case OpaqueV:
		y, ok := b.(OpaqueV)
		return ConstBool(ok && x.Tag == y.Tag)
	case nil:
		return ConstBool(b == nil)
	}
	e.unsupported_(st, fmt.Sprintf("equality on %T", a))
	return nil
}

// ---------- maps ----------

func (e *Engine) mapLookup(st *State, m MapV, key Value) (val Value, ok *Term, supported bool) {
	if m.Obj == 0 {
		return nil, False, true
	}
	mo := st.obj(m.Obj).V.(*MapObj)
	var res Value
	found := False
	for i := range mo.Entries {
		en := mo.Entries[i]
		c := e.equal(st, en.K, key)
		if c == nil {
			return nil, nil, false
		}
		hit := And(c, en.Present)
		if hit.IsFalse() {
			continue
		}
		if hit.IsTrue() {
			res, found = en.V, True
			continue
		}
		if res == nil {
			res = zero(mo.VT)
		}
		// symbolic hit: need mergeable values
		func() {
			defer func() {
				if r := recover(); r != nil {
					supported = false
				}
			}()
			supported = true
			res = mergeVal(hit, en.V, res)
		}()
		if !supported {
			return nil, nil, false
		}
		found = Or(found, hit)
	}
	if res == nil {
		res = zero(mo.VT)
	}
	return res, found, true
}

// mapFind resolves key to a definite entry index (or -1) by forking on symbolic hits; the calling instruction is
// re-executed in the forked states, so it must not have had side effects yet.
func (e *Engine) mapFind(st *State, m MapV, key Value) (int, bool) {
	mo := st.obj(m.Obj).V.(*MapObj)
	for i := range mo.Entries {
		c := e.equal(st, mo.Entries[i].K, key)
		if c == nil {
			return -1, false
		}
		hit := And(c, mo.Entries[i].Present)
		if e.decide(st, hit) {
			return i, true
		}
		if st.status != Running {
			return -1, false
		}
	}
	return -1, true
}

func (e *Engine) lookup(st *State, f *Frame, x *ssa.Lookup) {
	base := e.get(st, f, x.X)
	if s, ok := base.(StringV); ok {
		idx := ZeroExt(e.get(st, f, x.Index).(*Term), 64)
		r := e.stringIndex(st, s, idx)
		if st.status == Running {
			f.regs[x] = r
		}
		return
	}
	m := base.(MapV)
	key := e.get(st, f, x.Index)
	v, ok, sup := e.mapLookup(st, m, key)
	if !sup {
		if st.status != Running {
			return
		}
		i, fine := e.mapFind(st, m, key)
		if !fine {
			return
		}
		mo := st.obj(m.Obj).V.(*MapObj)
		if i >= 0 {
			v, ok = copyVal(mo.Entries[i].V), True
		} else {
			v, ok = zero(mo.VT), False
		}
	}
	if x.CommaOk {
		f.regs[x] = TupleV{v, ok}
	} else {
		f.regs[x] = v
	}
}

func (e *Engine) mapUpdate(st *State, f *Frame, x *ssa.MapUpdate) {
	m := e.get(st, f, x.Map).(MapV)
	if m.Obj == 0 {
		e.goPanic(st, "assignment to entry in nil map", nil)
		return
	}
	key := e.get(st, f, x.Key)
	val := e.get(st, f, x.Value)
	e.mapStore(st, m, key, val)
}

func mergeable(v Value) bool {
	switch x := v.(type) {
	case *Term:
		return true
	case *ArrayV:
		for _, el := range x.E {
			if !mergeable(el) {
				return false
			}
		}
		return true
	case *StructV:
		for _, el := range x.F {
			if !mergeable(el) {
				return false
			}
		}
		return true
	}
	return false
}

func (e *Engine) mapStore(st *State, m MapV, key, val Value) {
	if !mergeable(val) {
		i, fine := e.mapFind(st, m, key)
		if !fine {
			return
		}
		mo := st.wobj(m.Obj).V.(*MapObj)
		if i >= 0 {
			mo.Entries[i].V = copyVal(val)
			mo.Entries[i].Present = True
		} else {
			mo.Entries = append(mo.Entries, MapEntry{K: copyVal(key), V: copyVal(val), Present: True})
		}
		return
	}
	mo := st.wobj(m.Obj).V.(*MapObj)
	notFound := True
	for i := range mo.Entries {
		en := &mo.Entries[i]
		c := e.equal(st, en.K, key)
		if c == nil {
			return
		}
		hit := And(c, en.Present)
		if hit.IsFalse() {
			continue
		}
		if hit.IsTrue() {
			en.V = copyVal(val)
			return
		}
		en.V = mergeVal(hit, val, en.V)
		notFound = And(notFound, Not(hit))
	}
	mo.Entries = append(mo.Entries, MapEntry{K: copyVal(key), V: copyVal(val), Present: notFound})
}

func (e *Engine) mapDelete(st *State, m MapV, key Value) {
	if m.Obj == 0 {
		return
	}
	mo := st.wobj(m.Obj).V.(*MapObj)
	for i := range mo.Entries {
		en := &mo.Entries[i]
		c := e.equal(st, en.K, key)
		if c == nil {
			return
		}
		en.Present = And(en.Present, Not(c))
	}
}

func (e *Engine) mapLen(st *State, m MapV) *Term {
	if m.Obj == 0 {
		return ConstU(0, 64)
	}
	mo := st.obj(m.Obj).V.(*MapObj)
	n := ConstU(0, 64)
	for _, en := range mo.Entries {
		n = BVAdd(n, Ite(en.Present, ConstU(1, 64), ConstU(0, 64)))
	}
	return n
}

// ---------- range ----------

type iterV struct {
	kind string // "map" or "string"
	m    MapV
	s    StringV
	pos  int
}

func (e *Engine) rangeInit(st *State, f *Frame, x *ssa.Range) {
	switch b := e.get(st, f, x.X).(type) {
	case MapV:
		id := st.alloc(&ArrayV{E: []Value{ConstU(0, 64)}})
		f.regs[x] = TupleV{OpaqueV{"mapiter"}, b, Ptr{Obj: id}}
	case StringV:
		id := st.alloc(&ArrayV{E: []Value{ConstU(0, 64)}})
		f.regs[x] = TupleV{OpaqueV{"striter"}, b, Ptr{Obj: id}}
	default:
		e.unsupported_(st, "range over unexpected")
	}
}

func (e *Engine) rangeNext(st *State, f *Frame, x *ssa.Next) {
	it := e.get(st, f, x.Iter).(TupleV)
	cell := it[2].(Ptr)
	posT := st.load(Ptr{cell.Obj, []int{0}}).(*Term)
	pos := int(posT.Int64())
	if x.IsString {
		s := it[1].(StringV)
		if pos >= len(s.B) {
			f.regs[x] = TupleV{False, ConstU(0, 64), ConstU(0, 32)}
			return
		}
		c := s.B[pos]
		if !c.IsConst() {
			// assume ASCII for symbolic bytes (documented restriction)
			st.assume(BVUlt(c, ConstU(0x80, 8)))
			st.store(Ptr{cell.Obj, []int{0}}, ConstU(uint64(pos+1), 64))
			f.regs[x] = TupleV{True, ConstU(uint64(pos), 64), ZeroExt(c, 32)}
			return
		}
		cs, _ := StringV{s.B[pos:min(pos+4, len(s.B))]}.Concrete()
		if cs == "" { // following bytes symbolic; treat single byte
			cs = string([]byte{byte(c.Uint64())})
		}
		r, size := decodeRune(cs)
		st.store(Ptr{cell.Obj, []int{0}}, ConstU(uint64(pos+size), 64))
		f.regs[x] = TupleV{True, ConstU(uint64(pos), 64), ConstU(uint64(r), 32)}
		return
	}
	m := it[1].(MapV)
	if m.Obj == 0 {
		f.regs[x] = TupleV{False, zeroOf(x, 1), zeroOf(x, 2)}
		return
	}
	for {
		mo := st.obj(m.Obj).V.(*MapObj)
		if pos >= len(mo.Entries) {
			f.regs[x] = TupleV{False, zero(mo.KT), zero(mo.VT)}
			return
		}
		en := mo.Entries[pos]
		pos++
		st.store(Ptr{cell.Obj, []int{0}}, ConstU(uint64(pos), 64))
		if en.Present.IsFalse() {
			continue
		}
		if !en.Present.IsTrue() {
			// fork on presence
			pt := e.feasible(st, en.Present)
			pf := e.feasible(st, Not(en.Present))
			if pt && pf {
				o := st.clone()
				o.assume(Not(en.Present))
				o.top().pc-- // re-execute Next in the clone (position already advanced)
				e.pushWork(o)
				e.stats.forks++
				st.assume(en.Present)
			} else if !pt {
				continue
			}
		}
		f.regs[x] = TupleV{True, copyVal(en.K), copyVal(en.V)}
		return
	}
}

func zeroOf(x *ssa.Next, i int) Value {
	return zero(x.Type().(*types.Tuple).At(i).Type())
}

func decodeRune(s string) (rune, int) {
	for i, r := range s {
		_ = i
		n := len(string(r))
		if r == 0xFFFD {
			return r, 1
		}
		return r, n
	}
	return 0, 1
}

func byteTerms(vs []Value) ([]*Term, bool) {
	out := make([]*Term, len(vs))
	for i, v := range vs {
		t, ok := v.(*Term)
		if !ok || t.sort.K != SBV || t.sort.W != 8 {
			return nil, false
		}
		out[i] = t
	}
	return out, true
}

// wideEq compares two byte sequences of equal length as one bit-vector equality; adjacent extracts of the same term
// fold back into the term (Concat), so comparing e.g. a 20-byte address atom with 20 extracted hash bytes becomes a
// single equation that the path condition often contains verbatim.
func wideEq(a, b []*Term) *Term {
	// hex renderings: compare the rendered nibbles as one block (adjacent extracts fold back into the source term)
	if len(a) >= 2 {
		allHex := true
		na, nb := make([]*Term, len(a)), make([]*Term, len(b))
		for i := range a {
			oa, ok1 := hexOrigin[a[i]]
			ob, ok2 := hexOrigin[b[i]]
			if !ok1 || !ok2 {
				allHex = false
				break
			}
			na[i], nb[i] = oa, ob
		}
		if allHex {
			r := True
			for i := 0; i < len(na); i += 128 {
				j := min(i+128, len(na))
				r = And(r, Eq(termOfBytes(na[i:j]), termOfBytes(nb[i:j])))
			}
			return r
		}
	}
	// long sequences: compare in 64-byte chunks to keep terms shallow
	if len(a) > 64 {
		r := True
		for i := 0; i < len(a); i += 64 {
			j := min(i+64, len(a))
			r = And(r, wideEq(a[i:j], b[i:j]))
			if r.IsFalse() {
				return r
			}
		}
		return r
	}
	return Eq(termOfBytes(a), termOfBytes(b))
}
