package main

import (
	"bytes"
	"fmt"
	"go/ast"
	"go/format"
	"go/parser"
	"go/token"
	"os"
	"strconv"
	"strings"
)

// stripRun writes a copy of pkg/p2p/p2p.go in which the body of func Run is `panic("stripped")` and the imports that
// only Run used are dropped. Everything else is byte-for-byte what the current tree has. (quic-go v0.28.1, pulled in
// only by Run's libp2p transport setup, refuses to build with Go >= 1.20.)
func stripRun(src, dst string) error {
	fset := token.NewFileSet()
	f, err := parser.ParseFile(fset, src, nil, parser.ParseComments)
	if err != nil {
		return err
	}
	found := false
	for _, d := range f.Decls {
		fd, ok := d.(*ast.FuncDecl)
		if !ok || fd.Name.Name != "Run" || fd.Recv != nil {
			continue
		}
		found = true
		// Run returns a closure: keep the signature, replace the body
		fd.Body = &ast.BlockStmt{List: []ast.Stmt{&ast.ExprStmt{X: &ast.CallExpr{Fun: ast.NewIdent("panic"),
			Args: []ast.Expr{&ast.BasicLit{Kind: token.STRING, Value: strconv.Quote("stripped")}}}}}}
	}
	if !found {
		return fmt.Errorf("func Run not found in %s", src)
	}
	// drop comments inside removed body (they would be misplaced)
	f.Comments = nil
	used := map[string]bool{}
	ast.Inspect(f, func(n ast.Node) bool {
		if se, ok := n.(*ast.SelectorExpr); ok {
			if id, ok := se.X.(*ast.Ident); ok {
				used[id.Name] = true
			}
		}
		return true
	})
	for _, d := range f.Decls {
		gd, ok := d.(*ast.GenDecl)
		if !ok || gd.Tok != token.IMPORT {
			continue
		}
		var keep []ast.Spec
		for _, s := range gd.Specs {
			is := s.(*ast.ImportSpec)
			path, _ := strconv.Unquote(is.Path.Value)
			name := path[strings.LastIndex(path, "/")+1:]
			if is.Name != nil {
				name = is.Name.Name
			} else {
				// well-known package names that differ from the last path element
				switch {
				case strings.HasSuffix(path, "/v1") && strings.Contains(path, "gossip"):
					name = "gossipv1"
				case strings.HasPrefix(name, "go-"):
					name = strings.TrimPrefix(name, "go-")
				}
			}
			if name == "_" || name == "." || used[name] {
				keep = append(keep, s)
			}
		}
		gd.Specs = keep
	}
	var buf bytes.Buffer
	if err := format.Node(&buf, fset, f); err != nil {
		return err
	}
	return os.WriteFile(dst, buf.Bytes(), 0644)
}

// rewriteClock writes a copy of a source file in which the wall clock reads time.Now() and time.Since(x) go through the
// harness clock (zzverif.Now / zzverif.Since). Everything else is byte-identical.
func rewriteClock(src, dst, modDir string) error {
	b, err := os.ReadFile(src)
	if err != nil {
		return err
	}
	gm, err := os.ReadFile(modDir + "/go.mod")
	if err != nil {
		return err
	}
	modPath := ""
	for _, l := range strings.Split(string(gm), "\n") {
		if strings.HasPrefix(l, "module ") {
			modPath = strings.TrimSpace(strings.TrimPrefix(l, "module "))
		}
	}
	txt := string(b)
	n := strings.Count(txt, "time.Now()") + strings.Count(txt, "time.Since(") + strings.Count(txt, "time.NewTicker(")
	if n == 0 {
		return fmt.Errorf("no clock reads found in %s", src)
	}
	txt = strings.ReplaceAll(txt, "time.Now()", "zzverif.Now()")
	txt = strings.ReplaceAll(txt, "time.Since(", "zzverif.Since(")
	txt = strings.ReplaceAll(txt, "time.NewTicker(", "zzverif.NewTicker(")
	i := strings.Index(txt, "import (")
	if i < 0 {
		return fmt.Errorf("no import block in %s", src)
	}
	txt = txt[:i+len("import (")] + "\n\t\"" + modPath + "/pkg/zzverif\"" + txt[i+len("import ("):]
	txt += "\nvar _ = time.Second\n"
	return os.WriteFile(dst, []byte(txt), 0644)
}

// rewriteHooks writes a copy of a source file in which every method of the receiver type `recv` starts with a hook
// prologue: if the harness registered zzverif.Hooks["<recv>.<Method>"] with exactly the method's signature (without the
// receiver), that function is called instead of the body. Used to replace the HTTP node client by scenario functions
// in BOTH builds (symbolic and native replay); with no hook registered the body runs unchanged.
func rewriteHooks(src, dst, modDir, recv string) error {
	fset := token.NewFileSet()
	f, err := parser.ParseFile(fset, src, nil, parser.ParseComments)
	if err != nil {
		return err
	}
	b, _ := os.ReadFile(src)
	text := string(b)
	type ins struct {
		off  int
		code string
	}
	var inserts []ins
	exprText := func(e ast.Expr) string { return text[fset.Position(e.Pos()).Offset:fset.Position(e.End()).Offset] }
	for _, d := range f.Decls {
		fd, ok := d.(*ast.FuncDecl)
		if !ok || fd.Body == nil {
			continue
		}
		keyRecv := "func"
		if fd.Recv != nil {
			if len(fd.Recv.List) != 1 {
				continue
			}
			keyRecv = strings.TrimPrefix(exprText(fd.Recv.List[0].Type), "*")
		}
		// recv "*" = every function and method of the file; "func" = plain functions; otherwise methods of that type
		if recv != "*" && keyRecv != recv {
			continue
		}
		if fd.Type.TypeParams != nil {
			continue
		}
		var ptypes, pnames []string
		anon := 0
		okNames := true
		for _, p := range fd.Type.Params.List {
			t := exprText(p.Type)
			if len(p.Names) == 0 {
				okNames = false
			}
			for _, n := range p.Names {
				if n.Name == "_" {
					okNames = false
				}
				ptypes = append(ptypes, t)
				if _, isEll := p.Type.(*ast.Ellipsis); isEll {
					pnames = append(pnames, n.Name+"...")
				} else {
					pnames = append(pnames, n.Name)
				}
			}
			_ = anon
		}
		if !okNames {
			continue
		}
		var rtypes []string
		if fd.Type.Results != nil {
			for _, r := range fd.Type.Results.List {
				n := len(r.Names)
				if n == 0 {
					n = 1
				}
				for i := 0; i < n; i++ {
					rtypes = append(rtypes, exprText(r.Type))
				}
			}
		}
		sig := "func(" + strings.Join(ptypes, ", ") + ")"
		ret := "return "
		if len(rtypes) > 0 {
			sig += " (" + strings.Join(rtypes, ", ") + ")"
		} else {
			ret = ""
		}
		call := "zzvhook(" + strings.Join(pnames, ", ") + ")"
		code := fmt.Sprintf("\n\tif zzvhook, ok := zzverif.Hooks[%q].(%s); ok {\n\t\t%s%s\n", keyRecv+"."+fd.Name.Name, sig, ret, call)
		if len(rtypes) == 0 {
			code += "\t\treturn\n"
		}
		code += "\t}\n"
		inserts = append(inserts, ins{fset.Position(fd.Body.Lbrace).Offset + 1, code})
	}
	if len(inserts) == 0 {
		return fmt.Errorf("no methods of %s found in %s", recv, src)
	}
	for i := len(inserts) - 1; i >= 0; i-- {
		text = text[:inserts[i].off] + inserts[i].code + text[inserts[i].off:]
	}
	gm, err := os.ReadFile(modDir + "/go.mod")
	if err != nil {
		return err
	}
	modPath := ""
	for _, l := range strings.Split(string(gm), "\n") {
		if strings.HasPrefix(l, "module ") {
			modPath = strings.TrimSpace(strings.TrimPrefix(l, "module "))
		}
	}
	i := strings.Index(text, "import (")
	if i < 0 {
		return fmt.Errorf("no import block in %s", src)
	}
	text = text[:i+len("import (")] + "\n\t\"" + modPath + "/pkg/zzverif\"" + text[i+len("import ("):]
	return os.WriteFile(dst, []byte(text), 0644)
}
