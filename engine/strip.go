package main

import (
	"bytes"
	"fmt"
	"go/ast"
	"go/format"
	"go/parser"
	"go/token"
	"os"
	"strconv"
	"strings"
)

// stripRun writes a copy of pkg/p2p/p2p.go in which the body of func Run is `panic("stripped")` and the imports that
// only Run used are dropped. Everything else is byte-for-byte what the current tree has. (quic-go v0.28.1, pulled in
// only by Run's libp2p transport setup, refuses to build with Go >= 1.20.)
func stripRun(src, dst string) error {
	fset := token.NewFileSet()
	f, err := parser.ParseFile(fset, src, nil, parser.ParseComments)
	if err != nil {
		return err
	}
	found := false
	for _, d := range f.Decls {
		fd, ok := d.(*ast.FuncDecl)
		if !ok || fd.Name.Name != "Run" || fd.Recv != nil {
			continue
		}
		found = true
		// Run returns a closure: keep the signature, replace the body
		fd.Body = &ast.BlockStmt{List: []ast.Stmt{&ast.ExprStmt{X: &ast.CallExpr{Fun: ast.NewIdent("panic"),
			Args: []ast.Expr{&ast.BasicLit{Kind: token.STRING, Value: strconv.Quote("stripped")}}}}}}
	}
	if !found {
		return fmt.Errorf("func Run not found in %s", src)
	}
	// drop comments inside removed body (they would be misplaced)
	f.Comments = nil
	used := map[string]bool{}
	ast.Inspect(f, func(n ast.Node) bool {
		if se, ok := n.(*ast.SelectorExpr); ok {
			if id, ok := se.X.(*ast.Ident); ok {
				used[id.Name] = true
			}
		}
		return true
	})
	for _, d := range f.Decls {
		gd, ok := d.(*ast.GenDecl)
		if !ok || gd.Tok != token.IMPORT {
			continue
		}
		var keep []ast.Spec
		for _, s := range gd.Specs {
			is := s.(*ast.ImportSpec)
			path, _ := strconv.Unquote(is.Path.Value)
			name := path[strings.LastIndex(path, "/")+1:]
			if is.Name != nil {
				name = is.Name.Name
			} else {
				// well-known package names that differ from the last path element
				switch {
				case strings.HasSuffix(path, "/v1") && strings.Contains(path, "gossip"):
					name = "gossipv1"
				case strings.HasPrefix(name, "go-"):
					name = strings.TrimPrefix(name, "go-")
				}
			}
			if name == "_" || name == "." || used[name] {
				keep = append(keep, s)
			}
		}
		gd.Specs = keep
	}
	var buf bytes.Buffer
	if err := format.Node(&buf, fset, f); err != nil {
		return err
	}
	return os.WriteFile(dst, buf.Bytes(), 0644)
}

// rewriteClock writes a copy of a source file in which the wall clock reads time.Now() and time.Since(x) go through the
// harness clock (zzverif.Now / zzverif.Since). Everything else is byte-identical.
func rewriteClock(src, dst, modDir string) error {
	b, err := os.ReadFile(src)
	if err != nil {
		return err
	}
	gm, err := os.ReadFile(modDir + "/go.mod")
	if err != nil {
		return err
	}
	modPath := ""
	for _, l := range strings.Split(string(gm), "\n") {
		if strings.HasPrefix(l, "module ") {
			modPath = strings.TrimSpace(strings.TrimPrefix(l, "module "))
		}
	}
	txt := string(b)
	n := strings.Count(txt, "time.Now()") + strings.Count(txt, "time.Since(")
	if n == 0 {
		return fmt.Errorf("no clock reads found in %s", src)
	}
	txt = strings.ReplaceAll(txt, "time.Now()", "zzverif.Now()")
	txt = strings.ReplaceAll(txt, "time.Since(", "zzverif.Since(")
	i := strings.Index(txt, "import (")
	if i < 0 {
		return fmt.Errorf("no import block in %s", src)
	}
	txt = txt[:i+len("import (")] + "\n\t\"" + modPath + "/pkg/zzverif\"" + txt[i+len("import ("):]
	txt += "\nvar _ = time.Second\n"
	return os.WriteFile(dst, []byte(txt), 0644)
}
