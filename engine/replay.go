package main

import (
	"encoding/json"
	"math/big"
	"fmt"
	"os"
	"os/exec"
	"path/filepath"
	"strings"
)

// writeCE turns the model of a violation into the assignment file the native zzverif reads.
func writeCE(v *Violation, path string) error {
	ce := map[string][]uint64{}
	bytesIdx := map[string]int{}
	for _, nd := range v.State.nondet {
		switch nd.Kind {
		case "shape":
			ce[nd.Name] = append(ce[nd.Name], uint64(nd.Shape))
		case "bytes":
			k := bytesIdx[nd.Name]
			bytesIdx[nd.Name] = k + 1
			vals := make([]uint64, len(nd.Many))
			for i, t := range nd.Many {
				if m, ok := v.Model[t.name]; ok {
					vals[i] = m.Uint64()
				}
			}
			ce[fmt.Sprintf("%s[]#%d", nd.Name, k)] = vals
		case "blob":
			k := bytesIdx[nd.Name]
			bytesIdx[nd.Name] = k + 1
			vals := make([]uint64, nd.Shape)
			if m, ok := v.Model[nd.Term.name]; ok {
				bs := m.Bytes()
				for i := range bs {
					vals[nd.Shape-len(bs)+i] = uint64(bs[i])
				}
			}
			ce[fmt.Sprintf("%s[]#%d", nd.Name, k)] = vals
			if c, ok := v.Model[fmt.Sprintf("%s[]#%d@cand", nd.Name, k)]; ok {
				ce[fmt.Sprintf("%s[]#%d@cand", nd.Name, k)] = []uint64{c.Uint64()}
			}
			if nd.Shape == 20 {
				// 20 attacker-chosen bytes that the model made equal to an honest key's address: natively the address of
				// abstract key i is that of a real secp256k1 key, so the assignment refers to the key instead of the model bytes
				if m, ok := v.Model[nd.Term.name]; ok {
					for i := 0; i < 32; i++ {
						if a, ok := v.Model[fmt.Sprintf("@addr:%d", i)]; ok && a.Cmp(m) == 0 {
							ce[fmt.Sprintf("%s[]#%d@addr", nd.Name, k)] = []uint64{uint64(i)}
							break
						}
					}
				}
			}
		case "now":
			// monotonic nanoseconds of the k-th clock reading
			var mono uint64
			if m, ok := v.Model[nd.Many[0].name]; ok {
				mono = m.Uint64()
			}
			if v.State.usedUnixMilli && len(nd.Many) > 2 {
				var ms uint64
				if m, ok := v.Model[nd.Many[2].name]; ok {
					ms = m.Uint64()
				}
				ce["now.ms"] = append(ce["now.ms"], ms)
			} else {
				ce["now.mono"] = append(ce["now.mono"], mono)
			}
		default:
			var val uint64
			if m, ok := v.Model[nd.Term.name]; ok {
				val = m.Uint64()
			}
			ce[nd.Name] = append(ce[nd.Name], val)
		}
	}
	b, _ := json.MarshalIndent(ce, "", " ")
	return os.WriteFile(path, b, 0644)
}

// replay compiles the same harness natively (go test -overlay) and checks that the same assertion label fires.
func replay(v *Violation, dir, modDir, pkgPat, pkgName, entry string, overlay map[string]string) (bool, string) {
	os.MkdirAll(dir, 0755)
	cePath := filepath.Join(dir, "ce.json")
	if err := writeCE(v, cePath); err != nil {
		return false, err.Error()
	}
	test := fmt.Sprintf(`package %s

import (
	"fmt"
	"strings"
	"testing"
)

func TestVerifReplay(t *testing.T) {
	defer func() {
		r := recover()
		if s := fmt.Sprint(r); r != nil && strings.HasPrefix(s, "VERIF-ASSERT %s") {
			t.Logf("REPRODUCED: %%s", s)
			return
		}
		t.Fatalf("NOT REPRODUCED: recovered=%%v", r)
	}()
	%s()
}
`, pkgName, v.Label, entry)
	testPath := filepath.Join(dir, "zz_verif_replay_test.go")
	os.WriteFile(testPath, []byte(test), 0644)
	pkgDir := filepath.Join(modDir, strings.TrimPrefix(pkgPat, "./"))
	ov := map[string]map[string]string{"Replace": {filepath.Join(pkgDir, "zz_verif_replay_test.go"): testPath}}
	for k, val := range overlay {
		ov["Replace"][k] = val
	}
	ob, _ := json.MarshalIndent(ov, "", " ")
	ovPath := filepath.Join(dir, "overlay.json")
	os.WriteFile(ovPath, ob, 0644)
	crash := "__never__"
	if v.Label == "panic" && panicClass(v.Detail) != "" {
		crash = panicClass(v.Detail)
	}
	sh := fmt.Sprintf("#!/bin/sh\n# native replay of a solver counterexample against the real build; exit 0 = reproduced\n"+
		"mkdir -p %s/tmp; cd %s && out=$(VERIF_TMP=%s/tmp GOFLAGS=-mod=mod GOPROXY=off GOSUMDB=off GOTOOLCHAIN=local VERIF_ASSIGNMENT=%s timeout 600 go test -vet=off -count=1 -overlay %s -run TestVerifReplay -v %s 2>&1)\n"+
		"echo \"$out\"\n"+
		"echo \"$out\" | grep -q 'REPRODUCED: VERIF-ASSERT %s' && exit 0\n"+
		"# an unrecovered panic in a goroutine crashes the test binary: that is the reproduction of a 'panic' violation\n"+
		"echo \"$out\" | grep -q '^panic: ' && echo \"$out\" | grep -q '%s' && { echo 'REPRODUCED (process crashed)'; exit 0; }\n"+
		"exit 1\n", dir, modDir, dir, cePath, ovPath, pkgPat, v.Label, crash)
	os.WriteFile(filepath.Join(dir, "replay.sh"), []byte(sh), 0755)
	cmd := exec.Command("timeout", "600", "go", "test", "-vet=off", "-count=1", "-overlay", ovPath, "-run", "TestVerifReplay", "-v", pkgPat)
	cmd.Dir = modDir
	os.MkdirAll(filepath.Join(dir, "tmp"), 0755)
	cmd.Env = append(os.Environ(), "GOFLAGS=-mod=mod", "GOPROXY=off", "GOSUMDB=off", "GOTOOLCHAIN=local", "VERIF_ASSIGNMENT="+cePath, "VERIF_TMP="+filepath.Join(dir, "tmp"))
	out, err := cmd.CombinedOutput()
	os.WriteFile(filepath.Join(dir, "replay.log"), out, 0644)
	ok := err == nil && strings.Contains(string(out), "REPRODUCED: VERIF-ASSERT "+v.Label)
	if !ok && v.Label == "panic" && err != nil {
		// a panic in a goroutine the code under test (or the harness on its behalf) started cannot be recovered by the test
		// function: the test binary crashes. That IS the reproduction, provided the crash is the same kind of panic.
		if cls := panicClass(v.Detail); cls != "" && strings.Contains(string(out), "\npanic: ") && strings.Contains(string(out), cls) {
			os.WriteFile(filepath.Join(dir, "replay.note"), []byte("reproduced: the native test binary crashed with an unrecoverable goroutine panic of the same kind ("+cls+")\n"), 0644)
			return true, "REPRODUCED (process crashed, unrecovered goroutine panic: " + cls + ")\n" + lastLines(string(out), 4)
		}
	}
	return ok, lastLines(string(out), 6)
}

// panicClass maps the executor's panic description to the phrase the Go runtime prints for it.
func panicClass(detail string) string {
	for _, c := range []string{"index out of range", "nil pointer dereference", "slice bounds out of range", "integer divide by zero",
		"makeslice: len out of range", "negative shift amount", "interface conversion", "close of closed channel", "send on closed channel", "assignment to entry in nil map"} {
		if strings.Contains(detail, c) {
			return c
		}
	}
	return ""
}

func lastLines(s string, n int) string {
	ls := strings.Split(strings.TrimSpace(s), "\n")
	if len(ls) > n {
		ls = ls[len(ls)-n:]
	}
	return strings.Join(ls, "\n")
}

// witness replays ONE passing path natively: a model of the path condition of a finished path is turned into an
// assignment and the same harness entry is run by the Go compiler's build of the real code; every assertion must hold
// there too (translator / model validation, DESIGN 5.2). Returns (ran, ok, tail).
func witness(st *State, model map[string]*big.Int, dir, modDir, pkgPat, pkgName, entry string, overlay map[string]string) (bool, string) {
	v := &Violation{Label: "", State: st, Model: model}
	os.MkdirAll(dir, 0755)
	cePath := filepath.Join(dir, "ce.json")
	if err := writeCE(v, cePath); err != nil {
		return false, err.Error()
	}
	test := fmt.Sprintf(`package %s

import (
	"fmt"
	"strings"
	"testing"
)

func TestVerifWitness(t *testing.T) {
	defer func() {
		r := recover()
		if r == nil {
			t.Logf("WITNESS-OK")
			return
		}
		if s := fmt.Sprint(r); strings.HasPrefix(s, "VERIF-ASSERT") {
			t.Fatalf("WITNESS-MISMATCH: %%s", s)
		}
		if fmt.Sprintf("%%T", r) == "zzverif.skip" {
			t.Logf("WITNESS-SKIPPED (assumption not met natively)")
			return
		}
		t.Fatalf("WITNESS-MISMATCH: panic %%v", r)
	}()
	%s()
}
`, pkgName, entry)
	testPath := filepath.Join(dir, "zz_verif_witness_test.go")
	os.WriteFile(testPath, []byte(test), 0644)
	pkgDir := filepath.Join(modDir, strings.TrimPrefix(pkgPat, "./"))
	ov := map[string]map[string]string{"Replace": {filepath.Join(pkgDir, "zz_verif_witness_test.go"): testPath}}
	for k, val := range overlay {
		ov["Replace"][k] = val
	}
	ob, _ := json.MarshalIndent(ov, "", " ")
	ovPath := filepath.Join(dir, "overlay.json")
	os.WriteFile(ovPath, ob, 0644)
	cmd := exec.Command("timeout", "600", "go", "test", "-vet=off", "-count=1", "-overlay", ovPath, "-run", "TestVerifWitness", "-v", pkgPat)
	cmd.Dir = modDir
	os.MkdirAll(filepath.Join(dir, "tmp"), 0755)
	cmd.Env = append(os.Environ(), "GOFLAGS=-mod=mod", "GOPROXY=off", "GOSUMDB=off", "GOTOOLCHAIN=local", "VERIF_ASSIGNMENT="+cePath, "VERIF_TMP="+filepath.Join(dir, "tmp"))
	out, err := cmd.CombinedOutput()
	os.WriteFile(filepath.Join(dir, "witness.log"), out, 0644)
	ok := err == nil && (strings.Contains(string(out), "WITNESS-OK") || strings.Contains(string(out), "WITNESS-SKIPPED"))
	return ok, lastLines(string(out), 6)
}
