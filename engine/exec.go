package main

import (
	"fmt"
	"os"
	"strings"
	"go/constant"
	"go/token"
	"go/types"
	"math/big"

	"golang.org/x/tools/go/ssa"
)

type Config struct {
	MaxUnwind int
	MaxSteps  int
	ForkLimit int
	Verbose   bool
}

type Violation struct {
	Label  string
	State  *State
	Model  map[string]*big.Int
	Stack  []string
	Detail string
	Known  string
}

type Engine struct {
	prog       *ssa.Program
	solver     *Solver
	cfg        Config
	work       []*State
	done       []*State
	violations []*Violation
	stateSeq   int
	stats      struct {
		paths, forks, asserts, assertUnsat, assertSat, assertTrivial, feas, steps, cacheHits int
		byStatus                                               map[Status]int
	}
	reached     map[string]bool
	unsupported map[string]int
	funcsSeen   map[string]bool
	modelsUsed  map[string]bool
	pkgOfEntry  *ssa.Package
	symBranch   map[string]int
	entryName   string
	pinned      map[string][]uint64
	pinCursor   map[string]int
	known       []KnownFinding
	crossBudget int
	cross       CrossStats
	second      *Solver
	samples     []Sample
	qcache      map[qkey]bool
}

type SymPtr struct {
	Obj  int
	Path []int // path to the array
	Off  int
	N    int
	Idx  *Term // 64-bit index relative to Off
}

var slowMs = func() int { n := 0; fmt.Sscanf(os.Getenv("SYMGO_SLOW"), "%d", &n); return n }()

type qkey struct {
	h1, h2 uint64
	n, q   int
}

func (e *Engine) feasible(st *State, extra *Term) (res bool) {
	if extra.IsTrue() {
		return true
	}
	if extra.IsFalse() {
		return false
	}
	// syntactic shortcuts: the condition (or its negation) is already a conjunct of the path condition
	neg := Not(extra)
	for _, c := range st.pc {
		if c == extra {
			return true
		}
		if c == neg {
			return false
		}
	}
	key := qkey{st.pcH1, st.pcH2, len(st.pc), extra.id}
	if r, ok := e.qcache[key]; ok {
		e.stats.cacheHits++
		return r
	}
	if e.qcache == nil {
		e.qcache = map[qkey]bool{}
	}
	defer func() { e.qcache[key] = res }()
	e.stats.feas++
	var r Result
	if prefixMode {
		r = e.solver.CheckPC(st.pc, extra)
	} else {
		r = e.solver.Check(append(sliceFor(st.pc, extra), extra))
	}
	if r == Sat {
		e.solver.Pop()
	}
	if slowMs > 0 && len(e.solver.Durs) > 0 {
		if d := e.solver.Durs[len(e.solver.Durs)-1]; d.Milliseconds() >= int64(slowMs) {
			fmt.Printf("SLOW %dms res=%v pc=%d at %s\n", d.Milliseconds(), r, len(st.pc), st.stack()[0])
			if dir := os.Getenv("SYMGO_DUMPSLOW"); dir != "" {
				dumpQuery(fmt.Sprintf("%s/slow-%d-%dms-%v.smt2", dir, e.stats.feas, d.Milliseconds(), r), append(append([]*Term(nil), st.pc...), extra))
			}
		}
	}
	return r != Unsat
}

func (e *Engine) pushWork(st *State) {
	e.stateSeq++
	st.id = e.stateSeq
	e.work = append(e.work, st)
}

func (e *Engine) Run(entry *ssa.Function) {
	st := newState()
	e.pkgOfEntry = entry.Pkg
	e.pushFrame(st, entry, nil, nil, nil)
	e.pushWork(st)
	for len(e.work) > 0 {
		st := e.work[len(e.work)-1]
		e.work = e.work[:len(e.work)-1]
		for st.status == Running {
			e.step(st)
			st.steps++
			e.stats.steps++
			if st.steps > e.cfg.MaxSteps {
				st.status = UnwindExceeded
				st.note = "step budget"
			}
		}
		e.stats.paths++
		if e.stats.byStatus == nil {
			e.stats.byStatus = map[Status]int{}
		}
		e.stats.byStatus[st.status]++
		for k := range st.reached {
			e.reached[k] = true
		}
		if st.status == Unsupported {
			e.unsupported[st.note]++
		}
		if e.cfg.Verbose {
			fmt.Printf("path %d: status=%d note=%s steps=%d pc=%d\n", st.id, st.status, st.note, st.steps, len(st.pc))
		}
		e.done = append(e.done, st)
	}
}

func (e *Engine) pushFrame(st *State, fn *ssa.Function, args []Value, env []Value, retTo ssa.Value) *Frame {
	if fn.Blocks == nil {
		st.status = Unsupported
		st.note = "no body: " + fn.String()
		return nil
	}
	e.funcsSeen[fn.String()] = true
	f := &Frame{fn: fn, block: fn.Blocks[0], regs: map[ssa.Value]Value{}, env: env, loops: map[int]int{}, retTo: retTo}
	for i, p := range fn.Params {
		if i < len(args) {
			f.regs[p] = args[i]
		} else {
			f.regs[p] = zero(p.Type())
		}
	}
	st.frames = append(st.frames, f)
	return f
}

func (e *Engine) unsupported_(st *State, what string) {
	if os.Getenv("SYMGO_UNSUP_STACK") != "" {
		fmt.Println("UNSUPPORTED", what)
		for _, l := range st.stack() {
			fmt.Println("     at", l)
		}
	}
	st.status = Unsupported
	st.note = what
}

// ---------- operand evaluation ----------

func (e *Engine) get(st *State, f *Frame, v ssa.Value) Value {
	switch x := v.(type) {
	case *ssa.Const:
		return constVal(x)
	case *ssa.Function:
		return FuncV{Fn: x}
	case *ssa.Builtin:
		return FuncV{Builtin: x}
	case *ssa.Global:
		return Ptr{Obj: e.globalObj(st, x)}
	case *ssa.FreeVar:
		for i, fv := range f.fn.FreeVars {
			if fv == x {
				return f.env[i]
			}
		}
		panic("freevar not found")
	}
	r, ok := f.regs[v]
	if !ok {
		panic(fmt.Sprintf("unset register %s in %s", v.Name(), f.fn))
	}
	return r
}

func constVal(c *ssa.Const) Value {
	t := c.Type()
	if c.Value == nil {
		return zero(t)
	}
	if w, _, ok := intWidth(t); ok {
		bi, _ := new(big.Int).SetString(c.Value.ExactString(), 10)
		if bi == nil {
			// may be a float-formatted int constant
			if i64, ok := constant.Int64Val(constant.ToInt(c.Value)); ok {
				bi = big.NewInt(i64)
			} else {
				u, _ := constant.Uint64Val(constant.ToInt(c.Value))
				bi = new(big.Int).SetUint64(u)
			}
		}
		return ConstBV(bi, w)
	}
	switch {
	case isBool(t):
		return ConstBool(constant.BoolVal(c.Value))
	case isString(t):
		return mkString(constant.StringVal(c.Value))
	case isFloat(t):
		f, _ := constant.Float64Val(c.Value)
		return FPConst(f)
	}
	panic("const of type " + t.String())
}

func (e *Engine) globalObj(st *State, g *ssa.Global) int {
	if id, ok := st.globals[g]; ok {
		return id
	}
	e.ensureInit(st, g.Pkg)
	if id, ok := st.globals[g]; ok {
		return id
	}
	id := st.alloc(zero(g.Type().(*types.Pointer).Elem()))
	st.globals[g] = id
	return id
}

var initAllow = map[string]bool{"io": true, "bytes": true, "encoding/hex": true, "strconv": true, "encoding/binary": true,
	"context": true, "errors": true, "strings": true, "math/big": false}

func initAllowed(p *ssa.Package) bool {
	path := p.Pkg.Path()
	if strings.HasPrefix(path, "github.com/alephium/wormhole-fork/") {
		return true
	}
	return initAllow[path]
}

// ensureInit allocates all globals of the package and runs its var initialisers (nested package inits are skipped and
// happen lazily). For packages outside the allow-list, globals of interface/pointer type become unique opaque values
// (identity semantics only), everything else stays zero.
func (e *Engine) ensureInit(st *State, p *ssa.Package) {
	if p == nil || st.inited[p] {
		return
	}
	st.inited[p] = true
	allowed := initAllowed(p)
	for _, m := range p.Members {
		if g, ok := m.(*ssa.Global); ok {
			if _, done := st.globals[g]; !done {
				et := g.Type().(*types.Pointer).Elem()
				var v Value = zero(et)
				if !allowed {
					switch et.Underlying().(type) {
					case *types.Interface:
						v = IfaceV{T: opaqueType, V: OpaqueV{"global:" + g.String()}}
					case *types.Pointer:
						func() {
							defer func() { recover() }()
							v = Ptr{Obj: st.alloc(zero(et.Underlying().(*types.Pointer).Elem()))}
						}()
					}
				}
				st.globals[g] = st.alloc(v)
			}
		}
	}
	if !allowed {
		return
	}
	init := p.Func("init")
	if init == nil {
		return
	}
	p.Build()
	if init.Blocks == nil {
		return
	}
	depth := len(st.frames)
	seq := e.stateSeq
	fr := e.pushFrame(st, init, nil, nil, nil)
	if fr == nil {
		return
	}
	for st.status == Running && len(st.frames) > depth {
		e.step(st)
	}
	if st.status != Running {
		fmt.Printf("WARNING: init of %s ended with status %d (%s); continuing with partial initialisation\n", p.Pkg.Path(), st.status, st.note)
		st.status = Running
		st.note = ""
		st.frames = st.frames[:depth]
	}
	if e.stateSeq != seq {
		fmt.Printf("WARNING: init of %s forked\n", p.Pkg.Path())
	}
}

// ---------- step ----------

func (e *Engine) step(st *State) {
	f := st.top()
	defer func() {
		if r := recover(); r != nil {
			fmt.Println("ENGINE PANIC:", r)
			for _, l := range st.stack() {
				fmt.Println("   at", l)
			}
			if f.pc > 0 && f.pc <= len(f.block.Instrs) {
				fmt.Println("   instr:", f.block.Instrs[f.pc-1])
			}
			// the executor could not carry out this instruction (typically library code running on a model object):
			// the path is INCONCLUSIVE, never a pass
			st.status = Unsupported
			st.note = fmt.Sprintf("executor could not execute %s: %v", f.fn.String(), r)
		}
	}()
	if f.pc >= len(f.block.Instrs) {
		panic("pc past block end in " + f.fn.String())
	}
	in := f.block.Instrs[f.pc]
	if st.preemptOn && len(st.gos) > 0 && isSyncPoint(in) && e.maybePreempt(st, f) {
		return
	}
	f.pc++
	switch x := in.(type) {
	case *ssa.DebugRef:
	case *ssa.Alloc:
		id := st.alloc(zero(x.Type().(*types.Pointer).Elem()))
		f.regs[x] = Ptr{Obj: id}
	case *ssa.Store:
		addr := e.get(st, f, x.Addr)
		val := e.get(st, f, x.Val)
		e.storeTo(st, addr, val)
		if il := st.interleave; il != nil && st.status == Running {
			if p, ok := addr.(Ptr); ok && p.Obj != 0 && p.Obj <= il.baseObj {
				o := st.clone()
				o.interleave = nil
				o.interleaveFork = true
				e.callClosure(o, il.reader, nil, func(s *State, res Value) {
					s.status = Finished
					s.note = "interleaved reader finished"
				}, nil)
				e.pushWork(o)
				e.stats.forks++
			}
		}
	case *ssa.UnOp:
		e.unop(st, f, x)
	case *ssa.BinOp:
		a, b := e.get(st, f, x.X), e.get(st, f, x.Y)
		r := e.binop(st, x.Op, a, b, x.X.Type(), x)
		if st.status == Running {
			f.regs[x] = r
		}
	case *ssa.FieldAddr:
		p, ok := e.get(st, f, x.X).(Ptr)
		if !ok {
			e.unsupported_(st, "FieldAddr on non-Ptr")
			return
		}
		if p.Obj == 0 {
			e.goPanic(st, "nil pointer dereference", nil)
			return
		}
		f.regs[x] = Ptr{p.Obj, pathAppend(p.Path, x.Field)}
	case *ssa.Field:
		s := e.get(st, f, x.X).(*StructV)
		f.regs[x] = s.F[x.Field]
	case *ssa.IndexAddr:
		e.indexAddr(st, f, x)
	case *ssa.Index:
		e.index(st, f, x)
	case *ssa.Slice:
		e.sliceOp(st, f, x)
	case *ssa.Convert:
		f.regs[x] = e.convert(st, e.get(st, f, x.X), x.X.Type(), x.Type())
	case *ssa.ChangeType:
		f.regs[x] = e.get(st, f, x.X)
	case *ssa.ChangeInterface:
		f.regs[x] = e.get(st, f, x.X)
	case *ssa.MakeInterface:
		f.regs[x] = IfaceV{T: x.X.Type(), V: e.get(st, f, x.X)}
	case *ssa.TypeAssert:
		e.typeAssert(st, f, x)
	case *ssa.Extract:
		f.regs[x] = e.get(st, f, x.Tuple).(TupleV)[x.Index]
	case *ssa.Phi:
		for i, p := range f.block.Preds {
			if p == f.prev {
				f.regs[x] = e.get(st, f, x.Edges[i])
				break
			}
		}
	case *ssa.Jump:
		e.jump(st, f, f.block.Succs[0])
	case *ssa.If:
		e.branch(st, f, x)
	case *ssa.Return:
		var res Value
		switch len(x.Results) {
		case 0:
		case 1:
			res = e.get(st, f, x.Results[0])
		default:
			tv := make(TupleV, len(x.Results))
			for i, r := range x.Results {
				tv[i] = e.get(st, f, r)
			}
			res = tv
		}
		e.doReturn(st, res)
	case *ssa.Call:
		e.callInstr(st, f, x.Common(), x)
	case *ssa.Defer:
		fn, args, ok := e.evalCallee(st, f, x.Common())
		if !ok {
			return
		}
		f.defers = append(f.defers, &deferred{fn: fn, args: args})
	case *ssa.RunDefers:
		if n := len(f.defers); n > 0 {
			d := f.defers[n-1]
			f.defers = f.defers[:n-1]
			f.pc-- // re-execute RunDefers afterwards
			e.invoke(st, d.fn, d.args, nil, true)
		}
	case *ssa.Go:
		e.goInstr(st, f, x)
	case *ssa.MakeChan:
		e.makeChan(st, f, x)
	case *ssa.Send:
		e.chanSend(st, e.get(st, f, x.Chan).(ChanV), e.get(st, f, x.X))
	case *ssa.Select:
		e.selectInstr(st, f, x)
	case *ssa.Panic:
		v := e.get(st, f, x.X)
		e.goPanicVal(st, v)
	case *ssa.MakeSlice:
		e.makeSlice(st, f, x)
	case *ssa.MakeClosure:
		env := make([]Value, len(x.Bindings))
		for i, b := range x.Bindings {
			env[i] = e.get(st, f, b)
		}
		f.regs[x] = FuncV{Fn: x.Fn.(*ssa.Function), Env: env}
	case *ssa.MakeMap:
		mt := x.Type().Underlying().(*types.Map)
		id := st.alloc(&MapObj{KT: mt.Key(), VT: mt.Elem()})
		f.regs[x] = MapV{id}
	case *ssa.MapUpdate:
		e.mapUpdate(st, f, x)
	case *ssa.Lookup:
		e.lookup(st, f, x)
	case *ssa.Range:
		e.rangeInit(st, f, x)
	case *ssa.Next:
		e.rangeNext(st, f, x)
	case *ssa.SliceToArrayPointer:
		s := e.get(st, f, x.X).(SliceV)
		f.regs[x] = Ptr{s.Obj, append(append([]int{}, s.Path...), -1 - s.Off)} // unsupported precise; mark
		e.unsupported_(st, "SliceToArrayPointer")
	default:
		e.unsupported_(st, fmt.Sprintf("instr %T", in))
	}
}

func (e *Engine) jump(st *State, f *Frame, to *ssa.BasicBlock) {
	// loop unwinding accounting: count entries to a block from a later-or-equal block index (back edge heuristic)
	if to.Index <= f.block.Index {
		f.loops[to.Index]++
		if f.loops[to.Index] > e.cfg.MaxUnwind {
			st.status = UnwindExceeded
			st.note = fmt.Sprintf("unwind>%d at %s block %d", e.cfg.MaxUnwind, f.fn, to.Index)
			return
		}
	}
	f.prev = f.block
	f.block = to
	f.pc = 0
}

func (e *Engine) branch(st *State, f *Frame, x *ssa.If) {
	c := e.get(st, f, x.Cond).(*Term)
	tb, fb := f.block.Succs[0], f.block.Succs[1]
	if c.IsConst() {
		if c.IsTrue() {
			e.jump(st, f, tb)
		} else {
			e.jump(st, f, fb)
		}
		return
	}
	if e.symBranch == nil {
		e.symBranch = map[string]int{}
	}
	e.symBranch[f.fn.String()]++
	// the path condition is feasible by invariant, so if c is infeasible then not-c must be feasible
	ft := e.feasible(st, c)
	ff := true
	if ft {
		ff = e.feasible(st, Not(c))
	}
	switch {
	case ft && ff:
		e.stats.forks++
		o := st.clone()
		of := o.top()
		o.assume(Not(c))
		e.jump(o, of, fb)
		e.pushWork(o)
		st.assume(c)
		e.jump(st, f, tb)
	case ft:
		e.jump(st, f, tb)
	case ff:
		e.jump(st, f, fb)
	default:
		st.status = Infeasible
	}
}

func (e *Engine) doReturn(st *State, res Value) {
	f := st.top()
	if len(f.defers) > 0 && f.panicking == nil {
		// functions without RunDefers shouldn't have defers; ignore
	}
	st.frames = st.frames[:len(st.frames)-1]
	if f.onReturn != nil {
		f.onReturn(st, res)
		return
	}
	if len(st.frames) == 0 {
		if st.curGo != 0 {
			e.goExit(st)
			return
		}
		st.status = Finished
		return
	}
	caller := st.top()
	if f.retTo != nil {
		caller.regs[f.retTo] = res
	}
	if caller.panicking != nil {
		e.continuePanic(st)
	}
}

// ---------- panics ----------

func (e *Engine) goPanic(st *State, msg string, v Value) {
	pi := &PanicInfo{Msg: msg, Val: v, Stack: st.stack()}
	st.top().panicking = pi
	e.continuePanic(st)
}

func (e *Engine) goPanicVal(st *State, v Value) {
	msg := "panic: " + showVal(v)
	if iv, ok := v.(IfaceV); ok {
		if s, ok := iv.V.(StringV); ok {
			if cs, ok := s.Concrete(); ok {
				msg = "panic: " + cs
			}
		}
	}
	e.goPanic(st, msg, v)
}

func (e *Engine) continuePanic(st *State) {
	for {
		f := st.top()
		if n := len(f.defers); n > 0 && !f.recovered {
			d := f.defers[n-1]
			f.defers = f.defers[:n-1]
			e.invoke(st, d.fn, d.args, nil, true)
			if len(st.frames) > 0 && st.top() != f {
				return // deferred call frame pushed; resume when it returns
			}
			continue
		}
		if f.recovered {
			f.panicking = nil
			f.recovered = false
			// run remaining defers normally then return via Recover block
			if f.fn.Recover != nil {
				f.prev = f.block
				f.block = f.fn.Recover
				f.pc = 0
				return
			}
			var res Value
			rs := f.fn.Signature.Results()
			switch rs.Len() {
			case 0:
			case 1:
				res = zero(rs.At(0).Type())
			default:
				res = zero(rs)
			}
			e.doReturn(st, res)
			return
		}
		pi := f.panicking
		st.frames = st.frames[:len(st.frames)-1]
		if f.onPanic != nil {
			f.onPanic(st, pi)
			return
		}
		if len(st.frames) == 0 {
			if st.curGo != 0 {
				// an uncaught panic in any goroutine terminates the process
				e.reportViolation(st, "panic", "in spawned goroutine: "+pi.Msg, pi.Stack)
				st.status = Violated
				st.note = "panic in goroutine: " + pi.Msg
				return
			}
			st.status = Panicked
			st.panicv = pi
			st.note = pi.Msg
			return
		}
		st.top().panicking = pi
	}
}


// ---------- memory ----------

func (e *Engine) storeTo(st *State, addr Value, val Value) {
	switch p := addr.(type) {
	case Ptr:
		if p.Obj == 0 {
			e.goPanic(st, "nil pointer dereference (store)", nil)
			return
		}
		st.store(p, val)
	case SymPtr:
		for i := 0; i < p.N; i++ {
			ep := Ptr{p.Obj, pathAppend(p.Path, p.Off+i)}
			old := st.load(ep)
			c := Eq(p.Idx, ConstU(uint64(i), 64))
			st.store(ep, mergeVal(c, val, old))
		}
	default:
		e.unsupported_(st, fmt.Sprintf("store to %T", addr))
	}
}

func (e *Engine) loadFrom(st *State, addr Value) Value {
	switch p := addr.(type) {
	case Ptr:
		if p.Obj == 0 {
			e.goPanic(st, "nil pointer dereference", nil)
			return nil
		}
		return st.load(p)
	case SymPtr:
		if p.N > 0 && !mergeable(st.load(Ptr{p.Obj, pathAppend(p.Path, p.Off)})) {
			// elements are pointers/slices/...: resolve the index by forking (the instruction is re-executed in the clones)
			for i := 0; i < p.N; i++ {
				if e.decide(st, Eq(p.Idx, ConstU(uint64(i), 64))) {
					return st.load(Ptr{p.Obj, pathAppend(p.Path, p.Off+i)})
				}
				if st.status != Running {
					return nil
				}
			}
			st.status = Infeasible
			return nil
		}
		var res Value
		for i := p.N - 1; i >= 0; i-- {
			v := st.load(Ptr{p.Obj, pathAppend(p.Path, p.Off+i)})
			if res == nil {
				res = v
			} else {
				res = mergeVal(Eq(p.Idx, ConstU(uint64(i), 64)), v, res)
			}
		}
		return res
	}
	e.unsupported_(st, fmt.Sprintf("load from %T", addr))
	return nil
}

func mergeVal(c *Term, a, b Value) Value {
	switch x := a.(type) {
	case *Term:
		return Ite(c, x, b.(*Term))
	case *ArrayV:
		y := b.(*ArrayV)
		n := &ArrayV{E: make([]Value, len(x.E))}
		if len(x.E) >= 4 && len(x.E) <= 64 {
			// byte arrays (addresses, hashes): merge as ONE wide ite and re-split, so that later block comparisons see a
			// single chain of wide ites instead of len(x) chains of byte ites
			if xs, ok := byteTerms(x.E); ok {
				if ys, ok := byteTerms(y.E); ok {
					t := Ite(c, termOfBytes(xs), termOfBytes(ys))
					for i, bt := range bytesOfTerm(t) {
						n.E[i] = bt
					}
					return n
				}
			}
		}
		for i := range x.E {
			n.E[i] = mergeVal(c, x.E[i], y.E[i])
		}
		return n
	case *StructV:
		y := b.(*StructV)
		n := &StructV{F: make([]Value, len(x.F))}
		for i := range x.F {
			n.F[i] = mergeVal(c, x.F[i], y.F[i])
		}
		return n
	}
	panic(fmt.Sprintf("mergeVal: cannot merge %T", a))
}

func (e *Engine) unop(st *State, f *Frame, x *ssa.UnOp) {
	v := e.get(st, f, x.X)
	switch x.Op {
	case token.MUL:
		r := e.loadFrom(st, v)
		if st.status == Running && st.top() == f {
			f.regs[x] = r
		}
	case token.NOT:
		f.regs[x] = Not(v.(*Term))
	case token.SUB:
		t := v.(*Term)
		if t.sort.K == SFP64 {
			f.regs[x] = mk("fp.neg", FPSort, t)
		} else {
			f.regs[x] = BVNeg(t)
		}
	case token.XOR:
		f.regs[x] = BVNot(v.(*Term))
	case token.ARROW:
		v, ok, done := e.chanRecv(st, e.get(st, f, x.X).(ChanV), x.X.Type().Underlying().(*types.Chan).Elem())
		if done && st.status == Running {
			if x.CommaOk {
				f.regs[x] = TupleV{v, ConstBool(ok)}
			} else {
				f.regs[x] = v
			}
		}
	default:
		e.unsupported_(st, "unop "+x.Op.String())
	}
}

// concretize a 64-bit index term within [0,n); forks states. Returns (idx, ok). If not ok the state has ended/forked away.
func (e *Engine) indexCheck(st *State, idx *Term, n int, what string) (int, *Term, bool) {
	if idx.sort.W != 64 {
		idx = ZeroExt(idx, 64)
	}
	if idx.IsConst() {
		i := idx.Int64()
		if i < 0 || i >= int64(n) {
			e.goPanic(st, fmt.Sprintf("index out of range [%d] with length %d (%s)", i, n, what), nil)
			return 0, nil, false
		}
		return int(i), nil, true
	}
	if upperBound(idx).Cmp(big.NewInt(int64(n))) < 0 {
		return -1, idx, true // provably in range without a query
	}
	inb := And(BVSge(idx, ConstU(0, 64)), BVSlt(idx, ConstU(uint64(n), 64)))
	oob := e.feasible(st, Not(inb))
	ok := e.feasible(st, inb)
	if oob {
		if ok {
			o := st.clone()
			o.assume(Not(inb))
			o.top().pc-- // re-execute? no: panic directly
			o.top().pc++
			e.goPanic(o, fmt.Sprintf("index out of range (symbolic) with length %d (%s)", n, what), nil)
			e.pushWork(o)
			e.stats.forks++
		} else {
			st.assume(Not(inb))
			e.goPanic(st, fmt.Sprintf("index out of range (symbolic) with length %d (%s)", n, what), nil)
			return 0, nil, false
		}
	}
	if !ok {
		st.status = Infeasible
		return 0, nil, false
	}
	if oob {
		st.assume(inb)
	}
	return -1, idx, true
}

func (e *Engine) indexAddr(st *State, f *Frame, x *ssa.IndexAddr) {
	base := e.get(st, f, x.X)
	idx := e.get(st, f, x.Index).(*Term)
	if w, signed, _ := intWidth(x.Index.Type()); w != 64 {
		if signed {
			idx = SignExt(idx, 64)
		} else {
			idx = ZeroExt(idx, 64)
		}
	}
	var obj int
	var path []int
	var off, n int
	switch b := base.(type) {
	case Ptr:
		if b.Obj == 0 {
			e.goPanic(st, "nil pointer dereference (index)", nil)
			return
		}
		arr := navigate(st.obj(b.Obj).V, b.Path).(*ArrayV)
		obj, path, off, n = b.Obj, b.Path, 0, len(arr.E)
	case SliceV:
		obj, path, off, n = b.Obj, b.Path, b.Off, b.Len
	default:
		e.unsupported_(st, fmt.Sprintf("IndexAddr on %T", base))
		return
	}
	ci, sym, ok := e.indexCheck(st, idx, n, "IndexAddr")
	if !ok {
		return
	}
	if sym == nil {
		f.regs[x] = Ptr{obj, pathAppend(path, off+ci)}
	} else {
		f.regs[x] = SymPtr{Obj: obj, Path: path, Off: off, N: n, Idx: sym}
	}
}

func (e *Engine) index(st *State, f *Frame, x *ssa.Index) {
	base := e.get(st, f, x.X)
	idx := e.get(st, f, x.Index).(*Term)
	idx = ZeroExt(idx, 64)
	switch b := base.(type) {
	case *ArrayV:
		ci, sym, ok := e.indexCheck(st, idx, len(b.E), "Index")
		if !ok {
			return
		}
		if sym == nil {
			f.regs[x] = b.E[ci]
			return
		}
		var res Value
		for i := len(b.E) - 1; i >= 0; i-- {
			if res == nil {
				res = b.E[i]
			} else {
				res = mergeVal(Eq(sym, ConstU(uint64(i), 64)), b.E[i], res)
			}
		}
		f.regs[x] = res
	case StringV:
		r := e.stringIndex(st, b, idx)
		if st.status == Running {
			f.regs[x] = r
		}
	default:
		e.unsupported_(st, fmt.Sprintf("Index on %T", base))
	}
}

func (e *Engine) stringIndex(st *State, s StringV, idx *Term) *Term {
	ci, sym, ok := e.indexCheck(st, idx, len(s.B), "string index")
	if !ok {
		return nil
	}
	if sym == nil {
		return s.B[ci]
	}
	var res *Term
	for i := len(s.B) - 1; i >= 0; i-- {
		if res == nil {
			res = s.B[i]
		} else {
			res = Ite(Eq(sym, ConstU(uint64(i), 64)), s.B[i], res)
		}
	}
	return res
}

// concreteInt returns the value of an integer operand; a symbolic operand is concretised by forking over its feasible
// values in [0, limit] (the instruction is re-executed in the clones), values outside that range become one extra state
// in which the operand is pinned to a feasible out-of-range witness (so that the Go run-time check panics there).
func (e *Engine) concreteInt(st *State, v ssa.Value, f *Frame, def int, limit ...int) (int, bool) {
	if v == nil {
		return def, true
	}
	t := e.get(st, f, v).(*Term)
	if t.IsConst() {
		return int(t.Int64()), true
	}
	if len(limit) == 0 {
		return 0, false
	}
	lim := limit[0]
	t64 := t
	if t64.sort.W < 64 {
		t64 = SignExt(t64, 64)
	}
	// out-of-range witness first
	oob := Or(BVSlt(t64, ConstU(0, 64)), BVSgt(t64, ConstU(uint64(lim), 64)))
	if e.feasible(st, oob) {
		if r := e.solver.CheckPC(st.pc, oob); r == Sat {
			m := e.solver.Values(varsOf(t))
			e.solver.Pop()
			val := evalTerm(t64, m)
			if val != nil {
				o := st.clone()
				o.assume(Eq(t64, ConstBV(val, 64)))
				o.top().pc--
				o.top().regs[v] = ConstBV(val, t.sort.W)
				e.pushWork(o)
				e.stats.forks++
			}
		}
		st.assume(Not(oob))
	}
	first := -1
	for n := 0; n <= lim; n++ {
		c := Eq(t64, ConstU(uint64(n), 64))
		if !e.feasible(st, c) {
			continue
		}
		if first < 0 {
			first = n
			continue
		}
		o := st.clone()
		o.assume(c)
		o.top().pc--
		o.top().regs[v] = ConstU(uint64(n), t.sort.W)
		e.pushWork(o)
		e.stats.forks++
	}
	if first < 0 {
		st.status = Infeasible
		return 0, false
	}
	st.assume(Eq(t64, ConstU(uint64(first), 64)))
	f.regs[v] = ConstU(uint64(first), t.sort.W)
	return first, true
}

func (e *Engine) sliceOp(st *State, f *Frame, x *ssa.Slice) {
	base := e.get(st, f, x.X)
	switch b := base.(type) {
	case StringV:
		lo, ok1 := e.concreteInt(st, x.Low, f, 0)
		hi, ok2 := e.concreteInt(st, x.High, f, len(b.B))
		if !ok1 || !ok2 {
			e.unsupported_(st, "symbolic string slice bounds")
			return
		}
		if lo < 0 || hi < lo || hi > len(b.B) {
			e.goPanic(st, fmt.Sprintf("slice bounds out of range [%d:%d] with length %d", lo, hi, len(b.B)), nil)
			return
		}
		f.regs[x] = StringV{b.B[lo:hi]}
	case SliceV:
		lo, ok1 := e.concreteInt(st, x.Low, f, 0, b.Cap)
		if !ok1 && st.status != Running {
			return
		}
		hi, ok2 := e.concreteInt(st, x.High, f, b.Len, b.Cap)
		if !ok2 && st.status != Running {
			return
		}
		mx, ok3 := e.concreteInt(st, x.Max, f, b.Cap, b.Cap)
		if !ok1 || !ok2 || !ok3 {
			if st.status == Running {
				e.unsupported_(st, "symbolic slice bounds")
			}
			return
		}
		if lo < 0 || hi < lo || mx < hi || mx > b.Cap {
			e.goPanic(st, fmt.Sprintf("slice bounds out of range [%d:%d:%d] with capacity %d", lo, hi, mx, b.Cap), nil)
			return
		}
		if b.Obj == 0 {
			f.regs[x] = SliceV{}
			return
		}
		f.regs[x] = SliceV{Obj: b.Obj, Path: b.Path, Off: b.Off + lo, Len: hi - lo, Cap: mx - lo}
	case Ptr:
		if b.Obj == 0 {
			e.goPanic(st, "nil pointer dereference (slice of nil array pointer)", nil)
			return
		}
		arr := navigate(st.obj(b.Obj).V, b.Path).(*ArrayV)
		n := len(arr.E)
		lo, ok1 := e.concreteInt(st, x.Low, f, 0)
		hi, ok2 := e.concreteInt(st, x.High, f, n)
		mx, ok3 := e.concreteInt(st, x.Max, f, n)
		if !ok1 || !ok2 || !ok3 {
			e.unsupported_(st, "symbolic slice bounds")
			return
		}
		if lo < 0 || hi < lo || mx < hi || mx > n {
			e.goPanic(st, "slice bounds out of range (array)", nil)
			return
		}
		f.regs[x] = SliceV{Obj: b.Obj, Path: b.Path, Off: lo, Len: hi - lo, Cap: mx - lo}
	default:
		e.unsupported_(st, fmt.Sprintf("Slice on %T", base))
	}
}

func (e *Engine) makeSlice(st *State, f *Frame, x *ssa.MakeSlice) {
	lt := e.get(st, f, x.Len).(*Term)
	ct := e.get(st, f, x.Cap).(*Term)
	elem := x.Type().Underlying().(*types.Slice).Elem()
	_, lenSigned, _ := intWidth(x.Len.Type())
	_, capSigned, _ := intWidth(x.Cap.Type())
	constInt := func(t *Term, signed bool) int {
		if signed {
			return int(t.Int64())
		}
		return int(t.Uint64()) // make([]T, n) with n of an unsigned type (e.g. a uint8 count): 255 is 255, not -1
	}
	if lt.IsConst() && ct.IsConst() {
		n, c := constInt(lt, lenSigned), constInt(ct, capSigned)
		if n < 0 || c < n {
			e.goPanic(st, "makeslice: len out of range", nil)
			return
		}
		f.regs[x] = st.newSlice(elem, n, c)
		return
	}
	if lt != ct {
		e.unsupported_(st, "symbolic make with distinct len/cap")
		return
	}
	// fork over feasible concrete lengths (bounded)
	l64 := lt
	if l64.sort.W != 64 {
		if lenSigned {
			l64 = SignExt(l64, 64)
		} else {
			l64 = ZeroExt(l64, 64)
		}
	}
	if lenSigned && e.feasible(st, BVSlt(l64, ConstU(0, 64))) {
		o := st.clone()
		o.assume(BVSlt(l64, ConstU(0, 64)))
		e.goPanic(o, "makeslice: len out of range", nil)
		e.pushWork(o)
		e.stats.forks++
		st.assume(BVSge(l64, ConstU(0, 64)))
	}
	first := true
	var cont *State
	for n := 0; n <= e.cfg.ForkLimit; n++ {
		c := Eq(l64, ConstU(uint64(n), 64))
		if !e.feasible(st, c) {
			continue
		}
		o := st.clone()
		o.assume(c)
		o.top().regs[x] = o.newSlice(elem, n, n)
		if first {
			cont = o
			first = false
		} else {
			e.pushWork(o)
			e.stats.forks++
		}
	}
	// anything above the fork limit?
	if e.feasible(st, BVUgt(l64, ConstU(uint64(e.cfg.ForkLimit), 64))) {
		o := st.clone()
		o.status = UnwindExceeded
		o.note = "make length above fork limit"
		e.pushWork(o)
	}
	if cont == nil {
		st.status = Infeasible
		return
	}
	// replace current state by cont: copy fields
	*st = *cont
}

// ---------- conversions ----------

func (e *Engine) convert(st *State, v Value, from, to types.Type) Value {
	fu, tu := from.Underlying(), to.Underlying()
	// pointer <-> unsafe.Pointer <-> uintptr round trips (abi.NoEscape) keep the model pointer
	if pv, isPtr := v.(Ptr); isPtr {
		if b, ok := tu.(*types.Basic); ok && (b.Kind() == types.UnsafePointer || b.Kind() == types.Uintptr) {
			return pv
		}
		if _, ok := tu.(*types.Pointer); ok {
			return pv
		}
	}
	if fw, fs, ok := intWidth(from); ok {
		if tw, _, ok2 := intWidth(to); ok2 {
			t := v.(*Term)
			if tw <= fw {
				return Extract(tw-1, 0, t)
			}
			if fs {
				return SignExt(t, tw)
			}
			return ZeroExt(t, tw)
		}
		if isFloat(to) {
			t := v.(*Term)
			if fs {
				return mk("to_fp_signed", FPSort, t)
			}
			return mk("to_fp_unsigned", FPSort, t)
		}
		if isString(to) {
			t := v.(*Term)
			if t.IsConst() {
				return mkString(string(rune(t.Int64())))
			}
			e.unsupported_(st, "symbolic rune->string")
			return nil
		}
	}
	if isFloat(from) && isFloat(to) {
		return v
	}
	if isString(from) {
		if sl, ok := tu.(*types.Slice); ok {
			if w, _, _ := intWidth(sl.Elem()); w == 8 {
				return st.newByteSlice(v.(StringV).B)
			}
		}
		if isString(to) {
			return v
		}
	}
	if sl, ok := fu.(*types.Slice); ok && isString(to) {
		if w, _, _ := intWidth(sl.Elem()); w == 8 {
			s := v.(SliceV)
			return StringV{st.sliceBytes(s)}
		}
	}
	if _, ok := fu.(*types.Pointer); ok {
		if b, ok := tu.(*types.Basic); ok && b.Kind() == types.UnsafePointer {
			return v
		}
	}
	if b, ok := fu.(*types.Basic); ok && b.Kind() == types.UnsafePointer {
		return v
	}
	e.unsupported_(st, fmt.Sprintf("convert %s -> %s", from, to))
	return nil
}

func (e *Engine) typeAssert(st *State, f *Frame, x *ssa.TypeAssert) {
	iv := e.get(st, f, x.X).(IfaceV)
	var ok bool
	var res Value
	if _, isIface := x.AssertedType.Underlying().(*types.Interface); isIface {
		if iv.T != nil {
			ok = types.Implements(iv.T, x.AssertedType.Underlying().(*types.Interface))
		}
		res = iv
		if !ok {
			res = IfaceV{}
		}
	} else {
		ok = iv.T != nil && types.Identical(iv.T, x.AssertedType)
		if ok {
			res = iv.V
		} else {
			res = zero(x.AssertedType)
		}
	}
	if x.CommaOk {
		f.regs[x] = TupleV{res, ConstBool(ok)}
		return
	}
	if !ok {
		e.goPanic(st, fmt.Sprintf("interface conversion: %v is not %s", iv.T, x.AssertedType), nil)
		return
	}
	f.regs[x] = res
}

func dumpQuery(path string, conj []*Term) {
	pr := NewPrinter()
	var refs []string
	for _, t := range conj {
		if !t.IsTrue() {
			refs = append(refs, pr.Define(t))
		}
	}
	var sb strings.Builder
	sb.WriteString(pr.Flush())
	for _, r := range refs {
		fmt.Fprintf(&sb, "(assert %s)\n", r)
	}
	sb.WriteString("(check-sat)\n")
	os.WriteFile(path, []byte(sb.String()), 0644)
}

// ---- optional pre-emption at synchronisation points (zzverif.Preemptive) ----
// With pre-emption on, before a goroutine executes a channel operation (send, receive, select, len/cap of a channel) or
// a mutex call, the executor ALSO explores the schedule in which another runnable goroutine runs first. Each dynamic
// instruction pre-empts at most once, so the exploration is finite: all interleavings at the granularity of these points.
func isSyncPoint(in ssa.Instruction) bool {
	switch x := in.(type) {
	case *ssa.Send, *ssa.Select:
		return true
	case *ssa.UnOp:
		return x.Op == token.ARROW
	case *ssa.Call:
		if b, ok := x.Call.Value.(*ssa.Builtin); ok && (b.Name() == "len" || b.Name() == "cap") && len(x.Call.Args) == 1 {
			_, isChan := x.Call.Args[0].Type().Underlying().(*types.Chan)
			return isChan
		}
		if fn := x.Call.StaticCallee(); fn != nil {
			n := fn.String()
			return strings.HasPrefix(n, "(*sync.Mutex).") || strings.HasPrefix(n, "(*sync.RWMutex).") || strings.HasPrefix(n, "(*sync.Pool).")
		}
	case *ssa.Return:
		// a function that hands an object back to a sync.Pool (typically in a defer) may still return memory of that
		// object: another goroutine can take the object from the pool before the caller has used the result
		return putsToPool(x.Parent())
	}
	return false
}

var poolPutCache = map[*ssa.Function]bool{}

func putsToPool(fn *ssa.Function) bool {
	if fn == nil {
		return false
	}
	if v, ok := poolPutCache[fn]; ok {
		return v
	}
	r := false
	for _, b := range fn.Blocks {
		for _, in := range b.Instrs {
			var c *ssa.CallCommon
			switch y := in.(type) {
			case *ssa.Call:
				c = &y.Call
			case *ssa.Defer:
				c = &y.Call
			}
			if c != nil {
				if cal := c.StaticCallee(); cal != nil && cal.String() == "(*sync.Pool).Put" {
					r = true
				}
			}
		}
	}
	poolPutCache[fn] = r
	return r
}

// maybePreempt forks the schedule "someone else first". Returns true if the CURRENT state was switched away (never: the
// current state always continues; the alternative is pushed as a new state).
func (e *Engine) maybePreempt(st *State, f *Frame) bool {
	key := f.block.Index*100000 + f.pc
	if f.noPreempt == key+1 {
		return false
	}
	// is there another goroutine that could run?
	can := false
	for _, g := range st.gos {
		if !g.settling && (g.blockedAt == -1 || g.blockedAt < st.syncVer) {
			can = true
		}
	}
	f.noPreempt = key + 1
	if !can {
		return false
	}
	o := st.clone()
	me := &Gor{id: o.curGo, frames: o.frames, blockedAt: -1}
	o.gos = append(o.gos, me)
	// schedule someone else (not me: me was appended last, FIFO picks an earlier runnable one)
	if e.schedule(o) && o.curGo != me.id {
		e.pushWork(o)
		e.stats.forks++
	}
	return false
}
