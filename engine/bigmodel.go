package main

import (
	"fmt"
	"math/big"

	"golang.org/x/tools/go/ssa"
)

// math/big.Int model (DESIGN §4.2): the value of a *big.Int object is an SMT Int term kept in a side table keyed by the
// heap object. Only the methods used by code in scope are modelled; any other method on a modelled value is UNSUPPORTED.

func intOp(op string, s Sort, args ...*Term) *Term {
	// constant folding for the common all-constant case
	all := true
	for _, a := range args {
		if !a.IsConst() {
			all = false
		}
	}
	if all && len(args) == 2 && args[0].sort.K == SInt {
		x, y := args[0].val, args[1].val
		switch op {
		case "+":
			return ConstInt(new(big.Int).Add(x, y))
		case "*":
			return ConstInt(new(big.Int).Mul(x, y))
		case "-":
			return ConstInt(new(big.Int).Sub(x, y))
		case "<":
			return ConstBool(x.Cmp(y) < 0)
		case "<=":
			return ConstBool(x.Cmp(y) <= 0)
		case "int=":
			return ConstBool(x.Cmp(y) == 0)
		}
	}
	if op == "int=" {
		if args[0] == args[1] {
			return True
		}
		return mk("=", BoolSort, args[0], args[1])
	}
	return mk(op, s, args...)
}

func (e *Engine) bigOf(st *State, v Value) (*Term, bool) {
	p, ok := v.(Ptr)
	if !ok || p.Obj == 0 {
		return nil, false
	}
	t, ok := st.bigs[p.Obj]
	if !ok {
		// a zero-value big.Int (new(big.Int)) is 0
		return ConstInt(big.NewInt(0)), true
	}
	return t, true
}

func (st *State) setBig(p Ptr, t *Term) {
	if st.bigs == nil {
		st.bigs = map[int]*Term{}
	}
	st.bigs[p.Obj] = t
}

func init() {
	bi := "(*math/big.Int)."
	exact["math/big.NewInt"] = func(e *Engine, st *State, fn *ssa.Function, args []Value, retTo *ssa.Call) (Value, bool) {
		x := args[0].(*Term)
		id := st.alloc(OpaqueV{"big.Int"})
		p := Ptr{Obj: id}
		if x.IsConst() {
			st.setBig(p, ConstInt(big.NewInt(x.Int64())))
		} else {
			// signed 64-bit to Int
			st.setBig(p, mk("-", IntSort, mk("bv2nat", IntSort, BVAdd(x, ConstBV(new(big.Int).Lsh(big.NewInt(1), 63), 64))), ConstInt(new(big.Int).Lsh(big.NewInt(1), 63))))
		}
		return p, true
	}
	// SetString(s, base): base 10 only. Optional sign, then one or more decimal digits, nothing else.
	exact[bi+"SetString"] = func(e *Engine, st *State, fn *ssa.Function, args []Value, retTo *ssa.Call) (Value, bool) {
		z := args[0].(Ptr)
		s := args[1].(StringV)
		baseT := args[2].(*Term)
		if !baseT.IsConst() || (baseT.Int64() != 10 && baseT.Int64() != 0) {
			e.unsupported_(st, "big.Int.SetString with a base other than 10 or 0")
			return nil, true
		}
		fail := TupleV{Ptr{}, False}
		if len(s.B) == 0 {
			return fail, true
		}
		is := func(c *Term, chars string) *Term {
			r := False
			for i := 0; i < len(chars); i++ {
				r = Or(r, Eq(c, ConstU(uint64(chars[i]), 8)))
			}
			return r
		}
		// sign: fork on the first character
		digits := s.B
		neg := False
		isMinus := Eq(s.B[0], ConstU('-', 8))
		if e.decide(st, is(s.B[0], "+-")) {
			neg = isMinus
			digits = s.B[1:]
		}
		if st.status != Running {
			return nil, true
		}
		if len(digits) == 0 {
			return fail, true
		}
		base := int64(10)
		underscores := false
		if baseT.Int64() == 0 {
			// Go: "0x"/"0X" hex, "0b"/"0B" binary, "0o"/"0O" or a bare leading "0" octal; '_' may separate digits
			underscores = true
			if len(digits) >= 2 && e.decide(st, Eq(digits[0], ConstU('0', 8))) {
				switch {
				case e.decide(st, is(digits[1], "xX")):
					base, digits = 16, digits[2:]
				case st.status == Running && e.decide(st, is(digits[1], "bB")):
					base, digits = 2, digits[2:]
				case st.status == Running && e.decide(st, is(digits[1], "oO")):
					base, digits = 8, digits[2:]
				default:
					base, digits = 8, digits[1:]
				}
			}
			if st.status != Running {
				return nil, true
			}
			if len(digits) == 0 {
				return fail, true
			}
		}
		// digit values; every character is classified by forks (decimal digit / hex letter / underscore / other)
		var vals []*Term
		prevUnderscore := true // an underscore may not lead
		for i, c := range digits {
			if underscores && e.decide(st, Eq(c, ConstU('_', 8))) {
				if prevUnderscore && !(i == 0 && base != 10) || i == len(digits)-1 {
					return fail, true
				}
				prevUnderscore = true
				continue
			}
			if st.status != Running {
				return nil, true
			}
			prevUnderscore = false
			lim := uint64(base)
			if lim > 10 {
				lim = 10
			}
			isDec := And(BVUge(c, ConstU('0', 8)), BVUlt(c, ConstU('0'+lim, 8)))
			if e.decide(st, isDec) {
				if c.IsConst() {
					vals = append(vals, ConstInt(big.NewInt(int64(c.Uint64()-'0'))))
				} else {
					vals = append(vals, mk("bv2nat", IntSort, BVSub(c, ConstU('0', 8))))
				}
				continue
			}
			if st.status != Running {
				return nil, true
			}
			if base == 16 {
				if e.decide(st, And(BVUge(c, ConstU('a', 8)), BVUle(c, ConstU('f', 8)))) {
					vals = append(vals, mk("bv2nat", IntSort, BVSub(c, ConstU('a'-10, 8))))
					continue
				}
				if st.status == Running && e.decide(st, And(BVUge(c, ConstU('A', 8)), BVUle(c, ConstU('F', 8)))) {
					vals = append(vals, mk("bv2nat", IntSort, BVSub(c, ConstU('A'-10, 8))))
					continue
				}
				if st.status != Running {
					return nil, true
				}
			}
			return fail, true
		}
		if len(vals) == 0 {
			return fail, true
		}
		val := ConstInt(big.NewInt(0))
		pw := big.NewInt(1)
		for i := len(vals) - 1; i >= 0; i-- {
			val = intOp("+", IntSort, val, intOp("*", IntSort, vals[i], ConstInt(pw)))
			pw = new(big.Int).Mul(pw, big.NewInt(base))
		}
		if !neg.IsFalse() {
			val = Ite(neg, intOp("-", IntSort, ConstInt(big.NewInt(0)), val), val)
		}
		if z.Obj == 0 {
			e.goPanic(st, "nil pointer dereference (big.Int.SetString on nil)", nil)
			return nil, true
		}
		st.setBig(z, val)
		e.modelsUsed["math/big.Int as SMT Int (SetString base 10: optional sign, all digits)"] = true
		return TupleV{z, True}, true
	}
	// arithmetic with a result receiver: z.Op(x, y) sets z and returns z. Add/Sub are linear; Mul and the shifts are
	// modelled only when one operand is a constant (linear integer arithmetic), anything else is unsupported (fail closed).
	binop := func(name string, f func(e *Engine, st *State, x, y *Term) (*Term, bool)) {
		exact[bi+name] = func(e *Engine, st *State, fn *ssa.Function, args []Value, retTo *ssa.Call) (Value, bool) {
			z, okz := args[0].(Ptr)
			x, ok1 := e.bigOf(st, args[1])
			y, ok2 := e.bigOf(st, args[2])
			if !okz || z.Obj == 0 || !ok1 || !ok2 {
				e.goPanic(st, "nil pointer dereference (big.Int."+name+")", nil)
				return nil, true
			}
			r, ok := f(e, st, x, y)
			if !ok {
				e.unsupported_(st, "big.Int."+name+" of two symbolic operands")
				return nil, true
			}
			st.setBig(z, r)
			e.modelsUsed["math/big.Int arithmetic as SMT Int (Add, Sub, Mul/Lsh/Rsh by constants)"] = true
			return z, true
		}
	}
	binop("Add", func(e *Engine, st *State, x, y *Term) (*Term, bool) { return intOp("+", IntSort, x, y), true })
	binop("Sub", func(e *Engine, st *State, x, y *Term) (*Term, bool) { return intOp("-", IntSort, x, y), true })
	binop("Mul", func(e *Engine, st *State, x, y *Term) (*Term, bool) {
		if !x.IsConst() && !y.IsConst() {
			return nil, false
		}
		return intOp("*", IntSort, x, y), true
	})
	shift := func(name string, left bool) {
		exact[bi+name] = func(e *Engine, st *State, fn *ssa.Function, args []Value, retTo *ssa.Call) (Value, bool) {
			z, okz := args[0].(Ptr)
			x, ok1 := e.bigOf(st, args[1])
			n, okn := args[2].(*Term)
			if !okz || z.Obj == 0 || !ok1 {
				e.goPanic(st, "nil pointer dereference (big.Int."+name+")", nil)
				return nil, true
			}
			if !okn || !n.IsConst() || n.Int64() < 0 || n.Int64() > 4096 || (!left && !x.IsConst()) {
				e.unsupported_(st, "big.Int."+name+" with a symbolic operand")
				return nil, true
			}
			pw := new(big.Int).Lsh(big.NewInt(1), uint(n.Int64()))
			if left {
				st.setBig(z, intOp("*", IntSort, x, ConstInt(pw)))
			} else {
				st.setBig(z, ConstInt(new(big.Int).Rsh(x.val, uint(n.Int64()))))
			}
			e.modelsUsed["math/big.Int arithmetic as SMT Int (Add, Sub, Mul/Lsh/Rsh by constants)"] = true
			return z, true
		}
	}
	shift("Lsh", true)
	shift("Rsh", false)
	exact[bi+"Set"] = func(e *Engine, st *State, fn *ssa.Function, args []Value, retTo *ssa.Call) (Value, bool) {
		z, okz := args[0].(Ptr)
		x, ok1 := e.bigOf(st, args[1])
		if !okz || z.Obj == 0 || !ok1 {
			e.goPanic(st, "nil pointer dereference (big.Int.Set)", nil)
			return nil, true
		}
		st.setBig(z, x)
		return z, true
	}
	exact[bi+"Cmp"] = func(e *Engine, st *State, fn *ssa.Function, args []Value, retTo *ssa.Call) (Value, bool) {
		x, ok1 := e.bigOf(st, args[0])
		y, ok2 := e.bigOf(st, args[1])
		if !ok1 || !ok2 {
			e.goPanic(st, "nil pointer dereference (big.Int.Cmp)", nil)
			return nil, true
		}
		lt, eq := intOp("<", BoolSort, x, y), intOp("int=", BoolSort, x, y)
		return Ite(lt, ConstI(-1, 64), Ite(eq, ConstI(0, 64), ConstI(1, 64))), true
	}
	exact[bi+"Sign"] = func(e *Engine, st *State, fn *ssa.Function, args []Value, retTo *ssa.Call) (Value, bool) {
		x, ok := e.bigOf(st, args[0])
		if !ok {
			e.goPanic(st, "nil pointer dereference (big.Int.Sign)", nil)
			return nil, true
		}
		z := ConstInt(big.NewInt(0))
		return Ite(intOp("<", BoolSort, x, z), ConstI(-1, 64), Ite(intOp("int=", BoolSort, x, z), ConstI(0, 64), ConstI(1, 64))), true
	}
	exact[bi+"IsUint64"] = func(e *Engine, st *State, fn *ssa.Function, args []Value, retTo *ssa.Call) (Value, bool) {
		x, ok := e.bigOf(st, args[0])
		if !ok {
			e.goPanic(st, "nil pointer dereference (big.Int.IsUint64)", nil)
			return nil, true
		}
		return And(intOp("<=", BoolSort, ConstInt(big.NewInt(0)), x), intOp("<", BoolSort, x, ConstInt(new(big.Int).Lsh(big.NewInt(1), 64)))), true
	}
	// Uint64 returns the low 64 bits of |x| (documented: undefined if x does not fit; the implementation does this)
	exact[bi+"Uint64"] = func(e *Engine, st *State, fn *ssa.Function, args []Value, retTo *ssa.Call) (Value, bool) {
		x, ok := e.bigOf(st, args[0])
		if !ok {
			e.goPanic(st, "nil pointer dereference (big.Int.Uint64)", nil)
			return nil, true
		}
		if x.IsConst() {
			return ConstBV(new(big.Int).Abs(x.val), 64), true
		}
		if x.op == "bv2nat" && x.args[0].sort.W == 64 {
			return x.args[0], true // Uint64(SetUint64(v)) = v
		}
		abs := Ite(intOp("<", BoolSort, x, ConstInt(big.NewInt(0))), intOp("-", IntSort, ConstInt(big.NewInt(0)), x), x)
		return TS.intern(&Term{op: "int2bv", sort: BV(64), args: []*Term{abs}, p1: 64}), true
	}
	exact[bi+"SetUint64"] = func(e *Engine, st *State, fn *ssa.Function, args []Value, retTo *ssa.Call) (Value, bool) {
		z, x := args[0].(Ptr), args[1].(*Term)
		if z.Obj == 0 {
			e.goPanic(st, "nil pointer dereference (big.Int.SetUint64)", nil)
			return nil, true
		}
		if x.IsConst() {
			st.setBig(z, ConstInt(new(big.Int).SetUint64(x.Uint64())))
		} else {
			st.setBig(z, mk("bv2nat", IntSort, x))
		}
		return z, true
	}
	exact[bi+"Int64"] = func(e *Engine, st *State, fn *ssa.Function, args []Value, retTo *ssa.Call) (Value, bool) {
		x, ok := e.bigOf(st, args[0])
		if !ok {
			e.goPanic(st, "nil pointer dereference (big.Int.Int64)", nil)
			return nil, true
		}
		if x.IsConst() {
			return ConstBV(x.val, 64), true
		}
		// low 64 bits of the two's complement
		m := intOp("+", IntSort, x, ConstInt(new(big.Int).Lsh(big.NewInt(1), 64)))
		return TS.intern(&Term{op: "int2bv", sort: BV(64), args: []*Term{m}, p1: 64}), true
	}
	exact[bi+"String"] = func(e *Engine, st *State, fn *ssa.Function, args []Value, retTo *ssa.Call) (Value, bool) {
		return mkString("<big.Int>"), true
	}

	// encoding/hex.DecodeString on strings whose characters are hex renderings (hex.EncodeToString/Encode model) or
	// constants: decoded syntactically. Anything else runs the real code.
	exact["encoding/hex.DecodeString"] = func(e *Engine, st *State, fn *ssa.Function, args []Value, retTo *ssa.Call) (Value, bool) {
		s := args[0].(StringV)
		if len(s.B)%2 != 0 {
			return nil, false
		}
		out := make([]*Term, 0, len(s.B)/2)
		for i := 0; i < len(s.B); i += 2 {
			var nib [2]*Term
			for k := 0; k < 2; k++ {
				c := s.B[i+k]
				if o, ok := hexOrigin[c]; ok {
					nib[k] = o
				} else if c.IsConst() {
					v := c.Uint64()
					switch {
					case v >= '0' && v <= '9':
						nib[k] = ConstU(v-'0', 4)
					case v >= 'a' && v <= 'f':
						nib[k] = ConstU(v-'a'+10, 4)
					case v >= 'A' && v <= 'F':
						nib[k] = ConstU(v-'A'+10, 4)
					default:
						return nil, false
					}
				} else {
					return nil, false
				}
			}
			out = append(out, Concat(nib[0], nib[1]))
		}
		return TupleV{st.newByteSlice(out), IfaceV{}}, true
	}
	// go-ethereum common.IsHexAddress / HexToAddress on strings whose hex digits are renderings or constants
	hexNibbles := func(s StringV) ([]*Term, bool) {
		b := s.B
		if len(b) >= 2 && b[0].IsConst() && b[0].Uint64() == '0' && b[1].IsConst() && (b[1].Uint64() == 'x' || b[1].Uint64() == 'X') {
			b = b[2:]
		}
		out := make([]*Term, len(b))
		for i, c := range b {
			if o, ok := hexOrigin[c]; ok {
				out[i] = o
				continue
			}
			if !c.IsConst() {
				return nil, false
			}
			v := c.Uint64()
			switch {
			case v >= '0' && v <= '9':
				out[i] = ConstU(v-'0', 4)
			case v >= 'a' && v <= 'f':
				out[i] = ConstU(v-'a'+10, 4)
			case v >= 'A' && v <= 'F':
				out[i] = ConstU(v-'A'+10, 4)
			default:
				return nil, false
			}
		}
		return out, true
	}
	exact["github.com/ethereum/go-ethereum/common.IsHexAddress"] = func(e *Engine, st *State, fn *ssa.Function, args []Value, retTo *ssa.Call) (Value, bool) {
		s := args[0].(StringV)
		if _, ok := s.Concrete(); ok {
			return nil, false
		}
		nib, ok := hexNibbles(s)
		if !ok {
			return nil, false
		}
		return ConstBool(len(nib) == 40), true
	}
	exact["github.com/ethereum/go-ethereum/common.HexToAddress"] = func(e *Engine, st *State, fn *ssa.Function, args []Value, retTo *ssa.Call) (Value, bool) {
		s := args[0].(StringV)
		if _, ok := s.Concrete(); ok {
			return nil, false
		}
		nib, ok := hexNibbles(s)
		if !ok || len(nib) != 40 {
			return nil, false
		}
		arr := &ArrayV{E: make([]Value, 20)}
		for i := 0; i < 20; i++ {
			arr.E[i] = Concat(nib[2*i], nib[2*i+1])
		}
		return arr, true
	}
	exact["encoding/hex.Encode"] = func(e *Engine, st *State, fn *ssa.Function, args []Value, retTo *ssa.Call) (Value, bool) {
		dst, src := args[0].(SliceV), args[1].(SliceV)
		bs := st.sliceBytes(src)
		if dst.Len < 2*len(bs) {
			return nil, false
		}
		for i, b := range bs {
			st.store(st.sliceElemPtr(dst, 2*i), HexChar(Extract(7, 4, b)))
			st.store(st.sliceElemPtr(dst, 2*i+1), HexChar(Extract(3, 0, b)))
		}
		return ConstU(uint64(2*len(bs)), 64), true
	}
	_ = fmt.Sprint
}

// ---- internal/bytealg assembly routines: computed natively on concrete operands ----
func init() {
	concStr := func(v Value) (string, bool) {
		switch x := v.(type) {
		case StringV:
			return x.Concrete()
		}
		return "", false
	}
	concBytes := func(st *State, v Value) (string, bool) {
		if s, ok := v.(SliceV); ok {
			return StringV{st.sliceBytes(s)}.Concrete()
		}
		return "", false
	}
	byteArg := func(v Value) (byte, bool) {
		t, ok := v.(*Term)
		if !ok || !t.IsConst() {
			return 0, false
		}
		return byte(t.Uint64()), true
	}
	exact["internal/bytealg.CountString"] = func(e *Engine, st *State, fn *ssa.Function, args []Value, retTo *ssa.Call) (Value, bool) {
		s, ok1 := concStr(args[0])
		c, ok2 := byteArg(args[1])
		if !ok1 || !ok2 {
			e.unsupported_(st, "bytealg.CountString on symbolic operands")
			return nil, true
		}
		n := 0
		for i := 0; i < len(s); i++ {
			if s[i] == c {
				n++
			}
		}
		return ConstU(uint64(n), 64), true
	}
	exact["internal/bytealg.Count"] = func(e *Engine, st *State, fn *ssa.Function, args []Value, retTo *ssa.Call) (Value, bool) {
		s, ok1 := concBytes(st, args[0])
		c, ok2 := byteArg(args[1])
		if !ok1 || !ok2 {
			e.unsupported_(st, "bytealg.Count on symbolic operands")
			return nil, true
		}
		n := 0
		for i := 0; i < len(s); i++ {
			if s[i] == c {
				n++
			}
		}
		return ConstU(uint64(n), 64), true
	}
	idx := func(s string, c byte) int64 {
		for i := 0; i < len(s); i++ {
			if s[i] == c {
				return int64(i)
			}
		}
		return -1
	}
	exact["internal/bytealg.IndexByteString"] = func(e *Engine, st *State, fn *ssa.Function, args []Value, retTo *ssa.Call) (Value, bool) {
		s, ok1 := concStr(args[0])
		c, ok2 := byteArg(args[1])
		if !ok1 || !ok2 {
			// symbolic: first position whose byte equals c, as an ite chain (no fork)
			sv, isS := args[0].(StringV)
			ct, isT := args[1].(*Term)
			if !isS || !isT {
				e.unsupported_(st, "bytealg.IndexByteString operands")
				return nil, true
			}
			res := ConstI(-1, 64)
			for i := len(sv.B) - 1; i >= 0; i-- {
				res = Ite(Eq(sv.B[i], ct), ConstI(int64(i), 64), res)
			}
			return res, true
		}
		return ConstI(idx(s, c), 64), true
	}
	exact["internal/bytealg.IndexByte"] = func(e *Engine, st *State, fn *ssa.Function, args []Value, retTo *ssa.Call) (Value, bool) {
		sl, isS := args[0].(SliceV)
		ct, isT := args[1].(*Term)
		if !isS || !isT {
			e.unsupported_(st, "bytealg.IndexByte operands")
			return nil, true
		}
		bs := st.sliceBytes(sl)
		res := ConstI(-1, 64)
		for i := len(bs) - 1; i >= 0; i-- {
			res = Ite(Eq(bs[i], ct), ConstI(int64(i), 64), res)
		}
		return res, true
	}
	exact["internal/bytealg.IndexString"] = func(e *Engine, st *State, fn *ssa.Function, args []Value, retTo *ssa.Call) (Value, bool) {
		a, ok1 := concStr(args[0])
		b, ok2 := concStr(args[1])
		if !ok1 || !ok2 {
			e.unsupported_(st, "bytealg.IndexString on symbolic operands")
			return nil, true
		}
		for i := 0; i+len(b) <= len(a); i++ {
			if a[i:i+len(b)] == b {
				return ConstI(int64(i), 64), true
			}
		}
		return ConstI(-1, 64), true
	}
}

// errors.Is without reflection: walk the Unwrap chain comparing by identity/equality (custom Is methods are not used by
// the error types in scope).
func init() {
	exact["errors.Is"] = func(e *Engine, st *State, fn *ssa.Function, args []Value, retTo *ssa.Call) (Value, bool) {
		cur, ok := args[0].(IfaceV)
		target, ok2 := args[1].(IfaceV)
		if !ok || !ok2 {
			return nil, false
		}
		for depth := 0; depth < 16; depth++ {
			if cur.T == nil {
				return ConstBool(target.T == nil), true
			}
			if c := e.equal(st, cur, target); c != nil && c.IsTrue() {
				return True, true
			}
			if cur.T == opaqueType {
				return False, true
			}
			sel := e.prog.MethodSets.MethodSet(cur.T).Lookup(nil, "Unwrap")
			if sel == nil {
				return False, true
			}
			m := e.prog.MethodValue(sel)
			if m == nil || m.Signature.Results().Len() != 1 {
				return False, true
			}
			r := e.callSync(st, FuncV{Fn: m}, []Value{cur.V})
			if st.status != Running {
				return nil, true
			}
			next, ok := r.(IfaceV)
			if !ok {
				return False, true
			}
			cur = next
		}
		return False, true
	}
}
