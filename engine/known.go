package main

import (
	"encoding/json"
	"fmt"
	"math/big"
	"os"
	"strings"
)

// Known findings (DESIGN §5.6): an open entry is a solver assumption, not an output filter. For a failing assertion A
// under path condition PC the engine asks (1) PC ∧ ¬A ∧ ¬(where_1 ∨ … ∨ where_k): sat = a DIFFERENT violation,
// reported as such; (2) PC ∧ ¬A ∧ where_i: sat = the listed finding is still there (KNOWN-FINDING).
type KnownFinding struct {
	Property string `json:"property"`
	ID       string `json:"id"`
	Status   string `json:"status"` // open | fixed
	Entry    string `json:"entry"`  // harness entry ("" = any entry of the property)
	Label    string `json:"label"`  // assertion label, or "panic"
	Detail   string `json:"detail_contains"`
	Where    string `json:"where"` // conjunction: name op int && ...   (names: shape choices or scalar nondets)
	What     string `json:"what"`
	Commit   string `json:"commit,omitempty"`
}

func loadKnown(path, prop string) []KnownFinding {
	b, err := os.ReadFile(path)
	if err != nil {
		return nil
	}
	var f struct {
		Findings []KnownFinding `json:"findings"`
	}
	if err := json.Unmarshal(b, &f); err != nil {
		fmt.Println("INCONCLUSIVE known findings file does not parse:", err)
		os.Exit(2)
	}
	var out []KnownFinding
	for _, k := range f.Findings {
		if k.Status == "open" && (prop == "" || k.Property == prop) {
			out = append(out, k)
		}
	}
	return out
}

// whereTerm evaluates a `where` predicate in a state. Unknown names make the predicate false (the finding does not
// apply to this path), so a stale predicate can never hide a violation.
func whereTerm(st *State, where string) *Term {
	where = strings.TrimSpace(where)
	if where == "" {
		return True
	}
	res := True
	for _, conj := range strings.Split(where, "&&") {
		fs := strings.Fields(conj)
		if len(fs) != 3 {
			return False
		}
		name, op := fs[0], fs[1]
		c, ok := new(big.Int).SetString(fs[2], 0)
		if !ok {
			return False
		}
		var lhs *Term
		for _, nd := range st.nondet {
			if nd.Kind == "shape" && nd.Name == name {
				lhs = ConstU(uint64(nd.Shape), 64)
				break
			}
			if nd.Term != nil && (nd.Term.name == name) {
				lhs = nd.Term
				break
			}
		}
		if lhs == nil {
			return False
		}
		var atom *Term
		if lhs.sort.K == SBool {
			b := ConstBool(c.Sign() != 0)
			switch op {
			case "==":
				atom = Eq(lhs, b)
			case "!=":
				atom = Not(Eq(lhs, b))
			default:
				return False
			}
		} else {
			if lhs.sort.W < 64 {
				lhs = ZeroExt(lhs, 64)
			}
			rhs := ConstBV(c, lhs.sort.W)
			switch op {
			case "==":
				atom = Eq(lhs, rhs)
			case "!=":
				atom = Not(Eq(lhs, rhs))
			case "<":
				atom = BVUlt(lhs, rhs)
			case "<=":
				atom = BVUle(lhs, rhs)
			case ">":
				atom = BVUgt(lhs, rhs)
			case ">=":
				atom = BVUge(lhs, rhs)
			default:
				return False
			}
		}
		res = And(res, atom)
	}
	return res
}

// matchingKnown returns the open findings that speak about this (label, detail).
func (e *Engine) matchingKnown(label, detail string) []KnownFinding {
	var out []KnownFinding
	for _, k := range e.known {
		if k.Label != label {
			continue
		}
		if k.Detail != "" && !strings.Contains(detail, k.Detail) {
			continue
		}
		out = append(out, k)
	}
	return out
}

// classify decides, for a violated condition `bad` (a term that is satisfiable together with st.pc), whether the
// violation is new and/or one of the known findings; it records the corresponding Violation objects.
func (e *Engine) classify(st *State, bad *Term, label, detail string, stack []string) {
	ks := e.matchingKnown(label, detail)
	base := append(append([]*Term(nil), st.pc...), bad)
	if len(ks) == 0 {
		e.record(st, base, label, detail, stack, "")
		return
	}
	anyW := False
	for _, k := range ks {
		anyW = Or(anyW, whereTerm(st, k.Where))
	}
	// (1) a violation outside every listed finding?
	if r := e.solver.Check(append(append([]*Term(nil), base...), Not(anyW))); r == Sat {
		model := e.solver.Values(TS.vars)
		candidateHits(e.solver, st, model)
		e.solver.Pop()
		e.violations = append(e.violations, &Violation{Label: label, State: st.clone(), Model: model, Stack: stack, Detail: detail})
	} else if r == Unknown {
		e.unsupported["solver unknown while separating known findings on "+label]++
	}
	// (2) which listed findings are present
	for _, k := range ks {
		w := whereTerm(st, k.Where)
		if w.IsFalse() {
			continue
		}
		if r := e.solver.Check(append(append([]*Term(nil), base...), w)); r == Sat {
			model := e.solver.Values(TS.vars)
			candidateHits(e.solver, st, model)
			e.solver.Pop()
			e.violations = append(e.violations, &Violation{Label: label, State: st.clone(), Model: model, Stack: stack, Detail: detail, Known: k.ID})
		}
	}
}

func (e *Engine) record(st *State, conj []*Term, label, detail string, stack []string, known string) {
	var model map[string]*big.Int
	if r := e.solver.Check(conj); r == Sat {
		model = e.solver.Values(TS.vars)
		candidateHits(e.solver, st, model)
		e.solver.Pop()
	} else {
		e.unsupported["could not re-derive a model for violation "+label]++
		return
	}
	e.violations = append(e.violations, &Violation{Label: label, State: st.clone(), Model: model, Stack: stack, Detail: detail, Known: known})
}
