#!/usr/bin/env python3
# Derive p2p.go with the body of Run replaced by panic("stripped") (quic-go does not build on Go >= 1.20).
import sys
src=open('/repo/node/pkg/p2p/p2p.go').read()
i=src.index('func Run(')
j=src.index('func processSignedHeartbeat(')
sig_end=src.index(') func(ctx context.Context) error {', i)+len(') func(ctx context.Context) error {')
out=src[:sig_end]+'\n\tpanic("stripped")\n}\n\n'+src[j:]
for imp in ['"strings"','"time"','"github.com/alephium/wormhole-fork/node/pkg/vaa"','"github.com/alephium/wormhole-fork/node/pkg/version"','"github.com/multiformats/go-multiaddr"','"github.com/libp2p/go-libp2p"','dht "github.com/libp2p/go-libp2p-kad-dht"','pubsub "github.com/libp2p/go-libp2p-pubsub"','"github.com/libp2p/go-libp2p/core/host"','"github.com/libp2p/go-libp2p/core/protocol"','"github.com/libp2p/go-libp2p/core/routing"','"github.com/libp2p/go-libp2p/p2p/net/connmgr"','libp2ptls "github.com/libp2p/go-libp2p/p2p/security/tls"','libp2pquic "github.com/libp2p/go-libp2p/p2p/transport/quic"','"go.uber.org/zap"','"github.com/alephium/wormhole-fork/node/pkg/supervisor"']:
    out=out.replace('\t'+imp+'\n','')
open(sys.argv[1],'w').write(out)
