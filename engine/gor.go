package main

import (
	"fmt"
	"go/types"

	"golang.org/x/tools/go/ssa"
)

// Cooperative goroutines (DESIGN §3.2): every goroutine is a frame stack; exactly one runs. A goroutine runs until it
// blocks (channel, select, mutex), finishes, or - for the harness goroutine - calls zzverif.Settle(). `go f()` starts
// f at once (the spawner is parked runnable). There is no pre-emption between synchronisation points.
type Gor struct {
	id        int
	frames    []*Frame
	blockedAt int  // syncVer at which it blocked; -1 = runnable
	settling  bool // the harness goroutine waiting for quiescence
}

func cloneFrames(fs []*Frame) []*Frame {
	out := make([]*Frame, len(fs))
	for i, f := range fs {
		nf := *f
		nf.regs = make(map[ssa.Value]Value, len(f.regs))
		for k, v := range f.regs {
			nf.regs[k] = v
		}
		nf.loops = make(map[int]int, len(f.loops))
		for k, v := range f.loops {
			nf.loops[k] = v
		}
		nf.defers = append([]*deferred(nil), f.defers...)
		out[i] = &nf
	}
	return out
}

// schedule makes some parked goroutine current. Preference: FIFO among goroutines that are runnable or whose blocking
// condition may have changed (a channel/mutex changed since they blocked); the settling harness goroutine only when no
// other can run. Returns false if nothing can run (deadlock).
func (e *Engine) schedule(st *State) bool {
	pick := -1
	for i, g := range st.gos {
		if g.settling {
			continue
		}
		if g.blockedAt == -1 || g.blockedAt < st.syncVer {
			pick = i
			break
		}
	}
	if pick < 0 {
		for i, g := range st.gos {
			if g.settling {
				pick = i
				break
			}
		}
	}
	if pick < 0 {
		return false
	}
	g := st.gos[pick]
	st.gos = append(append([]*Gor(nil), st.gos[:pick]...), st.gos[pick+1:]...)
	st.frames = g.frames
	st.curGo = g.id
	return true
}

// block parks the current goroutine (its blocking instruction is re-executed on resume) and switches to another one.
func (e *Engine) block(st *State, note string) {
	if len(st.frames) > 0 {
		st.top().pc--
	}
	me := &Gor{id: st.curGo, frames: st.frames, blockedAt: st.syncVer}
	st.gos = append(st.gos, me)
	if !e.schedule(st) {
		// deadlock: report with the blocked goroutine's stack
		st.gos = st.gos[:len(st.gos)-1]
		st.frames = me.frames
		st.top().pc++
		if st.interleaveFork {
			st.status = Finished
			st.note = "interleaved reader has to wait here (excluded interleaving)"
			return
		}
		st.status = Blocked
		st.note = note
		if len(st.gos) > 0 {
			st.note += fmt.Sprintf(" (and %d other goroutine(s) blocked)", len(st.gos))
		}
		if st.mustNotBlock > 0 {
			e.reportViolation(st, "blocked", st.note, st.stack())
			st.status = Violated
		}
	}
}

// spawn starts fv(args) as a new goroutine and runs it first; the spawner is parked runnable.
func (e *Engine) spawn(st *State, fv FuncV, args []Value) {
	me := &Gor{id: st.curGo, frames: st.frames, blockedAt: -1}
	st.gos = append(st.gos, me)
	st.goSeq++
	st.frames = nil
	st.curGo = st.goSeq
	if fv.Fn.Blocks == nil && fv.Fn.Pkg != nil {
		fv.Fn.Pkg.Build()
	}
	if fr := e.pushFrame(st, fv.Fn, args, fv.Env, nil); fr == nil {
		// could not start (no body): state already marked unsupported; restore for diagnostics
		st.frames = me.frames
		st.curGo = me.id
		st.gos = st.gos[:len(st.gos)-1]
	}
}

// goExit: the current (non-harness) goroutine returned from its top function.
func (e *Engine) goExit(st *State) {
	st.syncVer++
	if !e.schedule(st) {
		st.status = Blocked
		st.note = "goroutine exited and no other goroutine can run"
	}
}

func init() {
	exact["zzverif.Preemptive"] = func(e *Engine, st *State, fn *ssa.Function, args []Value, retTo *ssa.Call) (Value, bool) {
		st.preemptOn = args[0].(*Term).IsTrue()
		e.modelsUsed["pre-emption at channel/mutex operations (zzverif.Preemptive)"] = true
		return nil, true
	}
	// Interleave(w, r): run w; after EVERY store w performs to an object that existed before w started, also explore the
	// state in which r runs to completion at that very moment (on the intermediate heap) - the sequentially consistent
	// interleavings of one reader with one writer at the granularity of the writer's stores. The forked states end after r.
	exact["zzverif.Interleave"] = func(e *Engine, st *State, fn *ssa.Function, args []Value, retTo *ssa.Call) (Value, bool) {
		st.interleave = &interleaveCtx{reader: args[1].(FuncV), baseObj: objCounter, depth: len(st.frames)}
		e.modelsUsed["Interleave: reader forked after every writer store to pre-existing objects"] = true
		e.callClosure(st, args[0], nil, func(st *State, res Value) { st.interleave = nil }, nil)
		return pendingV, true
	}
	// MustNotBlock(f): run f in the calling goroutine; a deadlock while inside f is the violation "blocked"
	exact["zzverif.MustNotBlock"] = func(e *Engine, st *State, fn *ssa.Function, args []Value, retTo *ssa.Call) (Value, bool) {
		st.mustNotBlock++
		e.callClosure(st, args[0], nil, func(st *State, res Value) { st.mustNotBlock-- }, nil)
		return pendingV, true
	}
	// Settle(): the harness goroutine waits until every other goroutine is blocked or has finished.
	exact["zzverif.Settle"] = func(e *Engine, st *State, fn *ssa.Function, args []Value, retTo *ssa.Call) (Value, bool) {
		if st.curGo != 0 {
			e.unsupported_(st, "zzverif.Settle outside the harness goroutine")
			return nil, true
		}
		if len(st.gos) == 0 {
			return nil, true
		}
		me := &Gor{id: 0, frames: st.frames, blockedAt: -1, settling: true}
		st.gos = append(st.gos, me)
		e.schedule(st)
		return pendingV, true
	}
}

// ---- context model ----
// A derived context is a heap object ArrayV{done ChanV, err, parent ctx, key, val, kind, children}: kind "cancel"
// (WithCancel/WithTimeout/WithDeadline - timers never fire) or "value" (WithValue). Cancellation closes the done channel,
// sets err = context.Canceled and propagates to the registered children; Value walks the parent chain.
const (
	cxDone = iota
	cxErr
	cxParent
	cxKey
	cxVal
	cxKind
	cxChildren
)

func (e *Engine) ctxType() types.Type {
	if p := e.prog.ImportedPackage("context"); p != nil {
		if tn, ok := p.Members["cancelCtx"].(*ssa.Type); ok {
			return types.NewPointer(tn.Type())
		}
	}
	return opaqueType
}

func (e *Engine) isModelCtx(v Value) (int, bool) {
	iv, ok := v.(IfaceV)
	if !ok || iv.T == nil {
		return 0, false
	}
	p, ok := iv.V.(Ptr)
	if !ok || p.Obj == 0 || !types.Identical(iv.T, e.ctxType()) {
		return 0, false
	}
	return p.Obj, true
}

// nearest cancel-kind ancestor (or self); 0 if none
func (e *Engine) cancelAncestor(st *State, v Value) int {
	for {
		obj, ok := e.isModelCtx(v)
		if !ok {
			return 0
		}
		o := st.obj(obj).V.(*ArrayV)
		if o.E[cxKind].(OpaqueV).Tag == "cancel" {
			return obj
		}
		v = o.E[cxParent]
	}
}

func (e *Engine) newCtx(st *State, parent Value, kind string, key, val Value) Value {
	var done Value = ChanV{}
	if kind == "cancel" {
		done = ChanV{st.alloc(&ChanObj{Cap: 0})}
	}
	obj := st.alloc(&ArrayV{E: []Value{done, IfaceV{}, parent, key, val, OpaqueV{kind}, &ArrayV{}}})
	if kind == "cancel" {
		if anc := e.cancelAncestor(st, parent); anc != 0 {
			ao := st.wobj(anc).V.(*ArrayV)
			kids := ao.E[cxChildren].(*ArrayV)
			ao.E[cxChildren] = &ArrayV{E: append(append([]Value(nil), kids.E...), Ptr{Obj: obj})}
			if ao.E[cxDone].(ChanV).Obj != 0 && st.obj(ao.E[cxDone].(ChanV).Obj).V.(*ChanObj).Closed {
				e.cancelObj(st, obj)
			}
		}
	}
	return IfaceV{T: e.ctxType(), V: Ptr{Obj: obj}}
}

func (e *Engine) cancelObj(st *State, obj int) {
	o := st.wobj(obj).V.(*ArrayV)
	ch := o.E[cxDone].(ChanV)
	co := st.wobj(ch.Obj).V.(*ChanObj)
	if co.Closed {
		return
	}
	co.Closed = true
	st.syncVer++
	if p := e.prog.ImportedPackage("context"); p != nil {
		if g := p.Var("Canceled"); g != nil {
			o.E[cxErr] = st.load(Ptr{Obj: e.globalObj(st, g)})
		}
	}
	for _, k := range o.E[cxChildren].(*ArrayV).E {
		e.cancelObj(st, k.(Ptr).Obj)
	}
}

func init() {
	withCancel := func(e *Engine, st *State, fn *ssa.Function, args []Value, retTo *ssa.Call) (Value, bool) {
		c := e.newCtx(st, args[0], "cancel", nil, nil)
		obj, _ := e.isModelCtx(c)
		return TupleV{c, FuncV{Env: []Value{OpaqueV{fmt.Sprintf("opaque-method:cancelctx:%d", obj)}}}}, true
	}
	exact["context.WithCancel"], exact["context.WithTimeout"], exact["context.WithDeadline"] = withCancel, withCancel, withCancel
	exact["context.WithValue"] = func(e *Engine, st *State, fn *ssa.Function, args []Value, retTo *ssa.Call) (Value, bool) {
		return e.newCtx(st, args[0], "value", args[1], args[2]), true
	}
	exact["(*context.cancelCtx).Done"] = func(e *Engine, st *State, fn *ssa.Function, args []Value, retTo *ssa.Call) (Value, bool) {
		anc := e.cancelAncestor(st, IfaceV{T: e.ctxType(), V: args[0]})
		if anc == 0 {
			return ChanV{}, true
		}
		return st.obj(anc).V.(*ArrayV).E[cxDone], true
	}
	exact["(*context.cancelCtx).Err"] = func(e *Engine, st *State, fn *ssa.Function, args []Value, retTo *ssa.Call) (Value, bool) {
		anc := e.cancelAncestor(st, IfaceV{T: e.ctxType(), V: args[0]})
		if anc == 0 {
			return IfaceV{}, true
		}
		return st.obj(anc).V.(*ArrayV).E[cxErr], true
	}
	exact["(*context.cancelCtx).Value"] = func(e *Engine, st *State, fn *ssa.Function, args []Value, retTo *ssa.Call) (Value, bool) {
		var v Value = IfaceV{T: e.ctxType(), V: args[0]}
		for {
			obj, ok := e.isModelCtx(v)
			if !ok {
				return IfaceV{}, true // Background/TODO carry no values
			}
			o := st.obj(obj).V.(*ArrayV)
			if o.E[cxKind].(OpaqueV).Tag == "value" {
				if c := e.equal(st, o.E[cxKey], args[1]); c != nil && c.IsTrue() {
					return o.E[cxVal], true
				}
			}
			v = o.E[cxParent]
		}
	}
	exact["(*context.cancelCtx).Deadline"] = func(e *Engine, st *State, fn *ssa.Function, args []Value, retTo *ssa.Call) (Value, bool) {
		return zero(fn.Signature.Results()), true
	}
}

// cancelCtx(tag): the cancel function of a model context
func (e *Engine) cancelCtx(st *State, tag string) {
	var obj int
	fmt.Sscanf(tag, "opaque-method:cancelctx:%d", &obj)
	e.cancelObj(st, obj)
}

// ---- sync/atomic typed values: plain loads/stores of the last struct field (sequentially consistent; one goroutine runs at a time) ----
func init() {
	lastField := func(st *State, p Ptr) Ptr {
		sv := st.load(p).(*StructV)
		return Ptr{p.Obj, pathAppend(p.Path, len(sv.F)-1)}
	}
	for _, ty := range []string{"Bool", "Int32", "Int64", "Uint32", "Uint64"} {
		ty := ty
		pre := "(*sync/atomic." + ty + ")."
		exact[pre+"Load"] = func(e *Engine, st *State, fn *ssa.Function, args []Value, retTo *ssa.Call) (Value, bool) {
			v := st.load(lastField(st, args[0].(Ptr))).(*Term)
			if ty == "Bool" {
				return Not(Eq(v, ConstU(0, v.sort.W))), true
			}
			return v, true
		}
		exact[pre+"Store"] = func(e *Engine, st *State, fn *ssa.Function, args []Value, retTo *ssa.Call) (Value, bool) {
			fp := lastField(st, args[0].(Ptr))
			v := args[1].(*Term)
			if ty == "Bool" {
				v = Ite(v, ConstU(1, 32), ConstU(0, 32))
			}
			st.store(fp, v)
			st.syncVer++
			return nil, true
		}
		if ty != "Bool" {
			exact[pre+"Add"] = func(e *Engine, st *State, fn *ssa.Function, args []Value, retTo *ssa.Call) (Value, bool) {
				fp := lastField(st, args[0].(Ptr))
				nv := BVAdd(st.load(fp).(*Term), args[1].(*Term))
				st.store(fp, nv)
				st.syncVer++
				return nv, true
			}
		}
	}
}
