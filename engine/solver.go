package main

import (
	"strconv"
	"bufio"
	"os"
	"fmt"
	"io"
	"math/big"
	"os/exec"
	"strings"
	"time"
)

type Result int

const (
	Unsat Result = iota
	Sat
	Unknown
)

func (r Result) String() string { return [...]string{"unsat", "sat", "unknown"}[r] }

type Solver struct {
	cmd     *exec.Cmd
	in      io.WriteCloser
	out     *bufio.Reader
	pr      *Printer
	Queries int
	Durs    []time.Duration
	Time    time.Duration
	logf    *os.File // full transcript (optional)
	incremental bool
	fallback *Solver
	restarted bool
	budget time.Duration
	usedFallback bool
	Fallbacks int
	Restarts int
	bin string
	Errors int
	Cancels int // (error "... canceled") answers: the solver own time limit hit outside check-sat; query re-decided in a fresh context
	broken bool
	stack []*Term // incremental prefix mode: path-condition terms currently asserted, one push level each
}

// primaryMs: per-query budget of the incremental primary solver; on expiry the query goes to the fallback solver
var primaryMs = func() int {
	n := 600
	fmt.Sscanf(os.Getenv("SYMGO_PRIMARY_MS"), "%d", &n)
	return n
}()

var prefixMode = os.Getenv("SYMGO_NOPREFIX") == ""

// CheckPC decides pc ∧ extra. In prefix mode the path condition is kept asserted on the solver's push/pop stack and only
// the part that differs from the previous query is re-sent (DFS exploration shares long prefixes).
func (s *Solver) CheckPC(pc []*Term, extra ...*Term) Result {
	if !s.incremental || !prefixMode {
		return s.Check(append(append([]*Term(nil), pc...), extra...))
	}
	t0 := time.Now()
	defer func() { d := time.Since(t0); s.Time += d; s.Queries++; s.Durs = append(s.Durs, d) }()
	for _, t := range pc {
		if t.IsFalse() {
			return Unsat
		}
	}
	for _, t := range extra {
		if t.IsFalse() {
			return Unsat
		}
	}
	L := 0
	for L < len(s.stack) && L < len(pc) && s.stack[L] == pc[L] {
		L++
	}
	var sb strings.Builder
	if n := len(s.stack) - L; n > 0 {
		fmt.Fprintf(&sb, "(pop %d)\n", n)
		s.stack = s.stack[:L]
	}
	for _, t := range pc[L:] {
		ref := s.pr.Define(t)
		sb.WriteString(s.pr.Flush())
		fmt.Fprintf(&sb, "(push 1)\n(assert %s)\n", ref)
		s.stack = append(s.stack, t)
	}
	var refs []string
	for _, t := range extra {
		if t.IsTrue() {
			continue
		}
		refs = append(refs, s.pr.Define(t))
	}
	sb.WriteString(s.pr.Flush())
	sb.WriteString("(push 1)\n")
	for _, r := range refs {
		fmt.Fprintf(&sb, "(assert %s)\n", r)
	}
	if injectErrAt > 0 && s.Queries == injectErrAt {
		sb.WriteString("(assert undeclared_symbol_for_selftest)\n") // self-test of the error path (SYMGO_INJECTERR=n)
	}
	sb.WriteString("(check-sat)\n")
	s.send(sb.String())
	res := s.readResultTimed()
	if s.restarted {
		s.stack = nil
	}
	if res != Sat && !s.restarted {
		s.send("(pop 1)\n")
	}
	s.restarted = false
	if res == Unknown {
		if s.fallback == nil {
			fb, err := newSolverMode("z3-new", 60000, false)
			if err != nil {
				return Unknown
			}
			s.fallback = fb
		}
		s.Fallbacks++
		s.usedFallback = true
		return s.fallback.Check(append(append([]*Term(nil), pc...), extra...))
	}
	s.usedFallback = false
	return res
}

func NewSolver(bin string, timeoutMs int) (*Solver, error) {
	if os.Getenv("SYMGO_NONINCREMENTAL") != "" {
		return newSolverMode(bin, timeoutMs, false)
	}
	return newSolverMode(bin, primaryMs, true)
}

func newSolverMode(bin string, timeoutMs int, incremental bool) (*Solver, error) {
	args := []string{"-in", fmt.Sprintf("-t:%d", timeoutMs)}
	if strings.Contains(bin, "cvc5") {
		args = []string{"--incremental", "--produce-models", "--lang=smt2", fmt.Sprintf("--tlimit-per=%d", timeoutMs)}
	}
	cmd := exec.Command(bin, args...)
	in, err := cmd.StdinPipe()
	if err != nil {
		return nil, err
	}
	out, err := cmd.StdoutPipe()
	if err != nil {
		return nil, err
	}
	cmd.Stderr = cmd.Stdout
	if err := cmd.Start(); err != nil {
		return nil, err
	}
	s := &Solver{cmd: cmd, in: in, out: bufio.NewReaderSize(out, 1<<20), pr: NewPrinter()}
	s.incremental = incremental
	s.bin = bin
	if os.Getenv("SYMGO_LOG") != "" && incremental {
		s.logf, _ = os.OpenFile(os.Getenv("SYMGO_LOG"), os.O_CREATE|os.O_WRONLY|os.O_APPEND, 0644)
	}
	s.send("(set-option :produce-models true)\n")
	if incremental {
		s.send("(set-option :global-declarations true)\n")
	}
	if timeoutMs > 0 && !strings.Contains(bin, "cvc5") {
		s.send(fmt.Sprintf("(set-option :timeout %d)\n", timeoutMs))
	}
	return s, nil
}

func (s *Solver) send(txt string) {
	if s.logf != nil {
		s.logf.WriteString(txt)
	}
	io.WriteString(s.in, txt)
}

func (s *Solver) Close() {
	s.send("(exit)\n")
	s.in.Close()
	s.cmd.Wait()
}

// Check decides satisfiability of the conjunction of terms.
// Non-incremental by default: z3's incremental core (push/pop) is orders of magnitude slower on the BV+UF queries
// this engine produces (observed: 0.8 s standalone vs >20 min after push), so every query is sent after (reset)
// with only its cone of influence re-declared.
func (s *Solver) Check(conj []*Term) Result {
	t0 := time.Now()
	defer func() { d := time.Since(t0); s.Time += d; s.Queries++; s.Durs = append(s.Durs, d) }()
	if s.broken && !s.incremental {
		s.cmd.Process.Kill()
		s.cmd.Wait()
		if ns, err := newSolverMode(s.bin, 60000, false); err == nil {
			s.cmd, s.in, s.out = ns.cmd, ns.in, ns.out
		}
		s.broken = false
	}
	if !s.incremental {
		s.pr = NewPrinter()
	} else if len(s.stack) > 0 {
		s.send(fmt.Sprintf("(pop %d)\n", len(s.stack)))
		s.stack = nil
	}
	var refs []string
	for _, t := range conj {
		if t.IsTrue() {
			continue
		}
		if t.IsFalse() {
			return Unsat
		}
		refs = append(refs, s.pr.Define(t))
	}
	var sb strings.Builder
	if !s.incremental {
		sb.WriteString("(reset)\n(set-option :produce-models true)\n")
		if strings.Contains(s.bin, "cvc5") {
			sb.WriteString("(set-logic ALL)\n")
		}
	}
	sb.WriteString(s.pr.Flush())
	if s.incremental {
		sb.WriteString("(push 1)\n")
	}
	for _, r := range refs {
		fmt.Fprintf(&sb, "(assert %s)\n", r)
	}
	sb.WriteString("(check-sat)\n")
	s.send(sb.String())
	res := s.readResultTimed()
	if res != Sat && s.incremental && !s.restarted {
		s.send("(pop 1)\n")
	}
	s.restarted = false
	if res == Unknown && s.incremental {
		// incremental core gave up within its short budget: decide with a fresh, non-incremental context
		if s.fallback == nil {
			fb, err := newSolverMode("z3-new", 60000, false)
			if err != nil {
				return Unknown
			}
			s.fallback = fb
		}
		s.Fallbacks++
		s.usedFallback = true
		return s.fallback.Check(conj)
	}
	s.usedFallback = false
	return res
}

// after a Sat Check, the context is still pushed so that models can be read; call Pop when done.
func (s *Solver) Pop() {
	if s.usedFallback {
		return
	}
	if s.incremental {
		s.send("(pop 1)\n")
	}
}

func (s *Solver) readResult() Result {
	for {
		line, err := s.out.ReadString('\n')
		if err != nil {
			return Unknown
		}
		line = strings.TrimSpace(line)
		switch {
		case line == "sat":
			return Sat
		case line == "unsat":
			return Unsat
		case line == "unknown" || line == "timeout":
			return Unknown
		case strings.HasPrefix(line, "(error"):
			fmt.Println("SOLVER ERROR:", line)
			s.Errors++
			s.broken = true // the pending check-sat answer would be read as the next query's: restart before reuse
			return Unknown
		}
	}
}

// Model values for the given variables (must be called right after a Sat result, before Pop).
func (s *Solver) Values(vars []*Term) map[string]*big.Int {
	if s.usedFallback {
		return s.fallback.Values(vars)
	}
	res := map[string]*big.Int{}
	for _, v := range vars {
		if !s.pr.defined[v.id] {
			continue
		}
		s.send(fmt.Sprintf("(get-value (%s))\n", symName(v.name)))
		txt := s.readSexp()
		// ((|name| #x..)) or true/false or (_ bv..)
		idx := strings.LastIndex(txt, "|")
		val := strings.TrimSpace(txt[idx+1:])
		val = strings.TrimRight(val, ")")
		val = strings.TrimSpace(val)
		n := new(big.Int)
		switch {
		case strings.HasPrefix(val, "#x"):
			n.SetString(val[2:], 16)
		case strings.HasPrefix(val, "#b"):
			n.SetString(val[2:], 2)
		case val == "true":
			n.SetInt64(1)
		case val == "false":
			n.SetInt64(0)
		case strings.HasPrefix(val, "(- "):
			n.SetString(strings.TrimSpace(val[3:]), 10)
			n.Neg(n)
		default:
			n.SetString(val, 10)
		}
		res[v.name] = n
	}
	return res
}

// EvalBool evaluates a Boolean term in the current model (right after a Sat result, before Pop).
func (s *Solver) EvalBool(t *Term) (val, ok bool) {
	if s.usedFallback {
		return s.fallback.EvalBool(t)
	}
	if t.IsTrue() {
		return true, true
	}
	if t.IsFalse() {
		return false, true
	}
	ref := s.pr.Define(t)
	s.send(s.pr.Flush())
	s.send(fmt.Sprintf("(get-value (%s))\n", ref))
	txt := strings.TrimSpace(s.readSexp())
	if strings.Contains(txt, "error") {
		return false, false
	}
	return strings.HasSuffix(txt, " true))"), true
}

// candidateHits records, for every BlobLike value of the state, which candidate the current model makes it equal to.
func candidateHits(s *Solver, st *State, model map[string]*big.Int) {
	idx := map[string]int{}
	for _, nd := range st.nondet {
		if nd.Kind != "blob" && nd.Kind != "bytes" {
			continue
		}
		k := idx[nd.Name]
		idx[nd.Name] = k + 1
		if nd.Kind != "blob" {
			continue
		}
		for i, c := range nd.Many {
			if c == nil {
				continue
			}
			if v, ok := s.EvalBool(Eq(nd.Term, c)); ok && v {
				model[fmt.Sprintf("%s[]#%d@cand", nd.Name, k)] = big.NewInt(int64(i))
				break
			}
		}
	}
}

func (s *Solver) readSexp() string {
	depth := 0
	var sb strings.Builder
	started := false
	for {
		b, err := s.out.ReadByte()
		if err != nil {
			return sb.String()
		}
		sb.WriteByte(b)
		if b == '(' {
			depth++
			started = true
		} else if b == ')' {
			depth--
		}
		if started && depth == 0 {
			return sb.String()
		}
	}
}

// readResultTimed enforces a wall-clock budget on the primary (incremental) solver: z3 4.8.12 ignores its own
// timeout options in some phases. On expiry the process is killed and restarted with an empty context.
func (s *Solver) readResultTimed() Result {
	if !s.incremental {
		return s.readResult()
	}
	budget := s.budget
	if budget == 0 {
		budget = time.Duration(primaryMs+1000) * time.Millisecond
	}
	ch := make(chan Result, 1)
	out := s.out
	go func() {
		// read on the current pipe only
		old := s.out
		_ = old
		ch <- readResultFrom(out)
	}()
	select {
	case r := <-ch:
		if r == errResult {
			// an (error ...) line: the context can no longer be trusted (a dropped definition/assertion would make later
			// answers meaningless) - restart with an empty context and let the fallback decide this query.
			// Output is read at every check-sat, so the error belongs to THIS query's batch: no earlier answer is affected.
			// A cancellation by the solver's own time limit ("canceled"/"timeout" while asserting or simplifying under load) is
			// a timeout, not an encoding problem: it is counted separately and does not make the run inconclusive.
			if le := strings.ToLower(lastSolverErr); strings.Contains(le, "cancel") || strings.Contains(le, "timeout") || strings.Contains(le, "interrupted") || strings.Contains(le, "resource limit") {
				s.Cancels++
			} else {
				s.Errors++
			}
			s.cmd.Process.Kill()
			s.cmd.Wait()
			ns, err := newSolverMode(s.bin, primaryMs, true)
			if err == nil {
				s.cmd, s.in, s.out, s.pr = ns.cmd, ns.in, ns.out, ns.pr
			}
			s.restarted = true
			s.stack = nil
			s.Restarts++
			return Unknown
		}
		return r
	case <-time.After(budget):
		s.cmd.Process.Kill()
		s.cmd.Wait()
		ns, err := newSolverMode(s.bin, primaryMs, true)
		if err == nil {
			s.cmd, s.in, s.out, s.pr = ns.cmd, ns.in, ns.out, ns.pr
		}
		s.restarted = true
		s.stack = nil
		s.Restarts++
		return Unknown
	}
}

func readResultFrom(out *bufio.Reader) Result {
	for {
		line, err := out.ReadString('\n')
		if err != nil {
			return Unknown
		}
		line = strings.TrimSpace(line)
		switch {
		case line == "sat":
			return Sat
		case line == "unsat":
			return Unsat
		case line == "unknown" || line == "timeout":
			return Unknown
		case strings.HasPrefix(line, "(error"):
			lastSolverErr = line
			fmt.Println("SOLVER ERROR:", line)
			return errResult
		}
	}
}

const errResult Result = 99

var lastSolverErr string

var injectErrAt = func() int { n, _ := strconv.Atoi(os.Getenv("SYMGO_INJECTERR")); return n }()
