package main

// Term DAG with hash-consing, constant folding and SMT-LIB2 printing.

import (
	"fmt"
	"os"
	"math/big"
	"strings"
)

type SortKind int

const (
	SBool SortKind = iota
	SBV
	SFP64
	SInt
)

type Sort struct {
	K SortKind
	W int
}

func (s Sort) String() string {
	switch s.K {
	case SBool:
		return "Bool"
	case SBV:
		return fmt.Sprintf("(_ BitVec %d)", s.W)
	case SFP64:
		return "(_ FloatingPoint 11 53)"
	case SInt:
		return "Int"
	}
	return "?"
}

func BV(w int) Sort { return Sort{SBV, w} }

var BoolSort = Sort{SBool, 0}
var IntSort = Sort{SInt, 0}
var FPSort = Sort{SFP64, 0}

type Term struct {
	id   int
	op   string // "const", "var", or SMT operator
	sort Sort
	args []*Term
	val  *big.Int // for const (BV, Bool(0/1), Int)
	name string   // for var / uf name / params
	p1   int      // extract hi, extend amount
	p2   int      // extract lo
}

type TermStore struct {
	tab   map[string]*Term
	next  int
	vars  []*Term
	ufs   map[string]string // name -> declaration
	ufOrd []string
}

func NewStore() *TermStore {
	return &TermStore{tab: map[string]*Term{}, ufs: map[string]string{}}
}

var TS = NewStore()

func (ts *TermStore) intern(t *Term) *Term {
	var sb strings.Builder
	sb.WriteString(t.op)
	sb.WriteByte('|')
	sb.WriteString(t.sort.String())
	sb.WriteByte('|')
	if t.val != nil {
		sb.WriteString(t.val.String())
	}
	sb.WriteByte('|')
	sb.WriteString(t.name)
	fmt.Fprintf(&sb, "|%d|%d", t.p1, t.p2)
	for _, a := range t.args {
		fmt.Fprintf(&sb, ",%d", a.id)
	}
	k := sb.String()
	if e, ok := ts.tab[k]; ok {
		return e
	}
	ts.next++
	t.id = ts.next
	ts.tab[k] = t
	if t.op == "var" {
		ts.vars = append(ts.vars, t)
	}
	return t
}

func mask(w int) *big.Int {
	m := new(big.Int).Lsh(big.NewInt(1), uint(w))
	return m.Sub(m, big.NewInt(1))
}

func norm(v *big.Int, w int) *big.Int {
	r := new(big.Int).And(v, mask(w))
	return r
}

func toSigned(v *big.Int, w int) *big.Int {
	if v.Bit(w-1) == 1 {
		return new(big.Int).Sub(v, new(big.Int).Lsh(big.NewInt(1), uint(w)))
	}
	return new(big.Int).Set(v)
}

func ConstBV(v *big.Int, w int) *Term {
	return TS.intern(&Term{op: "const", sort: BV(w), val: norm(v, w)})
}
func ConstU(v uint64, w int) *Term { return ConstBV(new(big.Int).SetUint64(v), w) }
func ConstI(v int64, w int) *Term  { return ConstBV(big.NewInt(v), w) }
func ConstInt(v *big.Int) *Term    { return TS.intern(&Term{op: "const", sort: IntSort, val: new(big.Int).Set(v)}) }

var True = TS.intern(&Term{op: "const", sort: BoolSort, val: big.NewInt(1)})
var False = TS.intern(&Term{op: "const", sort: BoolSort, val: big.NewInt(0)})

func ConstBool(b bool) *Term {
	if b {
		return True
	}
	return False
}

func Var(name string, s Sort) *Term { return TS.intern(&Term{op: "var", sort: s, name: name}) }

func (t *Term) IsConst() bool { return t.op == "const" }
func (t *Term) IsTrue() bool  { return t == True }
func (t *Term) IsFalse() bool { return t == False }
func (t *Term) Uint64() uint64 {
	return t.val.Uint64()
}
func (t *Term) Int64() int64 { return toSigned(t.val, t.sort.W).Int64() }

// symName is the quoted SMT-LIB symbol of a variable; names starting with '@' or '.' are reserved (cvc5 rejects them even
// when quoted), so they get a prefix.
func symName(name string) string {
	if strings.HasPrefix(name, "@") || strings.HasPrefix(name, ".") {
		return "|v" + name + "|"
	}
	return "|" + name + "|"
}

func mk(op string, s Sort, args ...*Term) *Term {
	return TS.intern(&Term{op: op, sort: s, args: args})
}

func Not(a *Term) *Term {
	if a.IsConst() {
		return ConstBool(a.val.Sign() == 0)
	}
	if a.op == "not" {
		return a.args[0]
	}
	return mk("not", BoolSort, a)
}

func And(a, b *Term) *Term {
	if a.IsFalse() || b.IsFalse() {
		return False
	}
	if a.IsTrue() {
		return b
	}
	if b.IsTrue() {
		return a
	}
	if a == b {
		return a
	}
	return mk("and", BoolSort, a, b)
}

func Or(a, b *Term) *Term {
	if a.IsTrue() || b.IsTrue() {
		return True
	}
	if a.IsFalse() {
		return b
	}
	if b.IsFalse() {
		return a
	}
	if a == b {
		return a
	}
	return mk("or", BoolSort, a, b)
}

func AndN(ts ...*Term) *Term {
	r := True
	for _, t := range ts {
		r = And(r, t)
	}
	return r
}

func Ite(c, a, b *Term) *Term {
	if c.IsTrue() {
		return a
	}
	if c.IsFalse() {
		return b
	}
	if a == b {
		return a
	}
	if a.sort.K == SBool {
		if a.IsTrue() && b.IsFalse() {
			return c
		}
		if a.IsFalse() && b.IsTrue() {
			return Not(c)
		}
	}
	return mk("ite", a.sort, c, a, b)
}

// hexOrigin maps a hex-digit character term to the 4-bit nibble it renders (injective rendering).
var hexOrigin = map[*Term]*Term{}

func HexChar(nib *Term) *Term {
	if nib.IsConst() {
		return ConstU(uint64("0123456789abcdef"[nib.Uint64()]), 8)
	}
	n8 := ZeroExt(nib, 8)
	t := Ite(BVUlt(n8, ConstU(10, 8)), BVAdd(n8, ConstU('0', 8)), BVAdd(n8, ConstU('a'-10, 8)))
	hexOrigin[t] = nib
	return t
}

func Eq(a, b *Term) *Term {
	if a == b {
		return True
	}
	if oa, ok := hexOrigin[a]; ok {
		if ob, ok := hexOrigin[b]; ok {
			return Eq(oa, ob)
		}
		if b.IsConst() {
			c := b.Uint64()
			switch {
			case c >= '0' && c <= '9':
				return Eq(oa, ConstU(c-'0', 4))
			case c >= 'a' && c <= 'f':
				return Eq(oa, ConstU(c-'a'+10, 4))
			default:
				return False
			}
		}
	}
	if _, ok := hexOrigin[b]; ok && a.IsConst() {
		return Eq(b, a)
	}
	if a.IsConst() && b.IsConst() {
		return ConstBool(a.val.Cmp(b.val) == 0)
	}
	if a.sort.K == SBool {
		if a.IsConst() {
			a, b = b, a
		}
		if b.IsTrue() {
			return a
		}
		if b.IsFalse() {
			return Not(a)
		}
	}
	// distinct atoms
	if a.op == "var" && b.op == "var" && a.name != b.name && strings.HasPrefix(a.name, "@") && strings.HasPrefix(b.name, "@") {
		// atoms in the same distinct-group (prefix up to ':') are unequal
		ga := a.name[:strings.IndexByte(a.name+":", ':')]
		gb := b.name[:strings.IndexByte(b.name+":", ':')]
		if ga == gb {
			return False
		}
	}
	// concat == concat of same shapes: split
	if a.op == "concat" && b.op == "concat" && a.args[0].sort == b.args[0].sort {
		return And(Eq(a.args[0], b.args[0]), Eq(a.args[1], b.args[1]))
	}
	if a.id > b.id {
		a, b = b, a
	}
	return mk("=", BoolSort, a, b)
}

func bvbin(op string, a, b *Term) *Term {
	w := a.sort.W
	if a.sort != b.sort {
		panic(fmt.Sprintf("sort mismatch in %s: %v vs %v", op, a.sort, b.sort))
	}
	if a.IsConst() && b.IsConst() {
		x, y := a.val, b.val
		r := new(big.Int)
		switch op {
		case "bvadd":
			r.Add(x, y)
		case "bvsub":
			r.Sub(x, y)
		case "bvmul":
			r.Mul(x, y)
		case "bvand":
			r.And(x, y)
		case "bvor":
			r.Or(x, y)
		case "bvxor":
			r.Xor(x, y)
		case "bvudiv":
			if y.Sign() == 0 {
				r = mask(w)
			} else {
				r.Div(x, y)
			}
		case "bvurem":
			if y.Sign() == 0 {
				r.Set(x)
			} else {
				r.Mod(x, y)
			}
		case "bvsdiv":
			if y.Sign() == 0 {
				goto sym
			}
			r.Quo(toSigned(x, w), toSigned(y, w))
		case "bvsrem":
			if y.Sign() == 0 {
				goto sym
			}
			r.Rem(toSigned(x, w), toSigned(y, w))
		case "bvshl":
			if y.Cmp(big.NewInt(int64(w))) >= 0 {
				r.SetInt64(0)
			} else {
				r.Lsh(x, uint(y.Uint64()))
			}
		case "bvlshr":
			if y.Cmp(big.NewInt(int64(w))) >= 0 {
				r.SetInt64(0)
			} else {
				r.Rsh(x, uint(y.Uint64()))
			}
		case "bvashr":
			sx := toSigned(x, w)
			if y.Cmp(big.NewInt(int64(w))) >= 0 {
				if sx.Sign() < 0 {
					r.SetInt64(-1)
				} else {
					r.SetInt64(0)
				}
			} else {
				r.Rsh(sx, uint(y.Uint64()))
			}
		default:
			goto sym
		}
		return ConstBV(r, w)
	}
sym:
	// light identities
	switch op {
	case "bvadd", "bvor", "bvxor":
		if a.IsConst() && a.val.Sign() == 0 {
			return b
		}
		if b.IsConst() && b.val.Sign() == 0 {
			return a
		}
	case "bvsub", "bvshl", "bvlshr", "bvashr":
		if b.IsConst() && b.val.Sign() == 0 {
			return a
		}
	case "bvand":
		if (a.IsConst() && a.val.Sign() == 0) || (b.IsConst() && b.val.Sign() == 0) {
			return ConstU(0, w)
		}
		if b.IsConst() && b.val.Cmp(mask(w)) == 0 {
			return a
		}
		if a.IsConst() && a.val.Cmp(mask(w)) == 0 {
			return b
		}
	case "bvmul":
		if b.IsConst() && b.val.Cmp(big.NewInt(1)) == 0 {
			return a
		}
		if a.IsConst() && a.val.Cmp(big.NewInt(1)) == 0 {
			return b
		}
	}
	// shift by constant multiple of 8 on zero-extended bytes is common; leave to solver
	return mk(op, a.sort, a, b)
}

func BVAdd(a, b *Term) *Term  { return bvbin("bvadd", a, b) }
func BVSub(a, b *Term) *Term  { return bvbin("bvsub", a, b) }
func BVMul(a, b *Term) *Term  { return bvbin("bvmul", a, b) }
func BVAnd(a, b *Term) *Term  { return bvbin("bvand", a, b) }
func BVOr(a, b *Term) *Term   { return bvbin("bvor", a, b) }
func BVXor(a, b *Term) *Term  { return bvbin("bvxor", a, b) }
func BVUDiv(a, b *Term) *Term { return bvbin("bvudiv", a, b) }
func BVURem(a, b *Term) *Term { return bvbin("bvurem", a, b) }
func BVSDiv(a, b *Term) *Term { return bvbin("bvsdiv", a, b) }
func BVSRem(a, b *Term) *Term { return bvbin("bvsrem", a, b) }
func BVShl(a, b *Term) *Term  { return bvbin("bvshl", a, b) }
func BVLshr(a, b *Term) *Term { return bvbin("bvlshr", a, b) }
func BVAshr(a, b *Term) *Term { return bvbin("bvashr", a, b) }

func BVNot(a *Term) *Term {
	if a.IsConst() {
		return ConstBV(new(big.Int).Xor(a.val, mask(a.sort.W)), a.sort.W)
	}
	return mk("bvnot", a.sort, a)
}
func BVNeg(a *Term) *Term {
	if a.IsConst() {
		return ConstBV(new(big.Int).Neg(a.val), a.sort.W)
	}
	return mk("bvneg", a.sort, a)
}

func bvcmp(op string, a, b *Term) *Term {
	if a.sort != b.sort {
		panic(fmt.Sprintf("sort mismatch in %s: %v vs %v", op, a.sort, b.sort))
	}
	w := a.sort.W
	if a.IsConst() && b.IsConst() {
		var c int
		if strings.HasPrefix(op, "bvs") {
			c = toSigned(a.val, w).Cmp(toSigned(b.val, w))
		} else {
			c = a.val.Cmp(b.val)
		}
		switch op {
		case "bvult", "bvslt":
			return ConstBool(c < 0)
		case "bvule", "bvsle":
			return ConstBool(c <= 0)
		case "bvugt", "bvsgt":
			return ConstBool(c > 0)
		case "bvuge", "bvsge":
			return ConstBool(c >= 0)
		}
	}
	if a == b {
		switch op {
		case "bvult", "bvslt", "bvugt", "bvsgt":
			return False
		default:
			return True
		}
	}
	return mk(op, BoolSort, a, b)
}

func BVUlt(a, b *Term) *Term { return bvcmp("bvult", a, b) }
func BVUle(a, b *Term) *Term { return bvcmp("bvule", a, b) }
func BVUgt(a, b *Term) *Term { return bvcmp("bvugt", a, b) }
func BVUge(a, b *Term) *Term { return bvcmp("bvuge", a, b) }
func BVSlt(a, b *Term) *Term { return bvcmp("bvslt", a, b) }
func BVSle(a, b *Term) *Term { return bvcmp("bvsle", a, b) }
func BVSgt(a, b *Term) *Term { return bvcmp("bvsgt", a, b) }
func BVSge(a, b *Term) *Term { return bvcmp("bvsge", a, b) }

func Extract(hi, lo int, a *Term) *Term {
	w := hi - lo + 1
	if lo == 0 && w == a.sort.W {
		return a
	}
	if a.IsConst() {
		return ConstBV(new(big.Int).Rsh(a.val, uint(lo)), w)
	}
	switch a.op {
	case "uf":
		// key axiom as a rewrite rule: the low 160 bits of keccak_64(@pub:j) are the address atom @addr:j
		if os.Getenv("SYMGO_NOKEYREWRITE") == "" && a.name == "keccak_64" && hi < 160 && a.args[0].op == "var" && strings.HasPrefix(a.args[0].name, "@pub:") {
			return Extract(hi, lo, Var("@addr:"+a.args[0].name[5:], BV(160)))
		}
	case "concat":
		lw := a.args[1].sort.W
		if hi < lw {
			return Extract(hi, lo, a.args[1])
		}
		if lo >= lw {
			return Extract(hi-lw, lo-lw, a.args[0])
		}
	case "extract":
		return Extract(hi+a.p2, lo+a.p2, a.args[0])
	case "zero_extend":
		iw := a.args[0].sort.W
		if hi < iw {
			return Extract(hi, lo, a.args[0])
		}
		if lo >= iw {
			return ConstU(0, w)
		}
	case "sign_extend":
		iw := a.args[0].sort.W
		if hi < iw {
			return Extract(hi, lo, a.args[0])
		}
	case "ite":
		if a.args[1].IsConst() && a.args[2].IsConst() {
			return Ite(a.args[0], Extract(hi, lo, a.args[1]), Extract(hi, lo, a.args[2]))
		}
	case "bvlshr":
		// (x >> c)[hi:lo] with const c, in range
		if a.args[1].IsConst() {
			c := int(a.args[1].val.Int64())
			if hi+c < a.sort.W {
				return Extract(hi+c, lo+c, a.args[0])
			}
		}
	}
	return TS.intern(&Term{op: "extract", sort: BV(w), args: []*Term{a}, p1: hi, p2: lo})
}

func Concat(a, b *Term) *Term {
	if a.IsConst() && b.IsConst() {
		v := new(big.Int).Lsh(a.val, uint(b.sort.W))
		v.Or(v, b.val)
		return ConstBV(v, a.sort.W+b.sort.W)
	}
	// adjacent extracts of same term
	if a.op == "extract" && b.op == "extract" && a.args[0] == b.args[0] && a.p2 == b.p1+1 {
		return Extract(a.p1, b.p2, a.args[0])
	}
	// concat(x, concat(y,z)) keep right-assoc; try merging a with head of b
	if b.op == "concat" && a.op == "extract" && b.args[0].op == "extract" && a.args[0] == b.args[0].args[0] && a.p2 == b.args[0].p1+1 {
		return Concat(Extract(a.p1, b.args[0].p2, a.args[0]), b.args[1])
	}
	return mk("concat", BV(a.sort.W+b.sort.W), a, b)
}

func ZeroExt(a *Term, to int) *Term {
	if to == a.sort.W {
		return a
	}
	if to < a.sort.W {
		return Extract(to-1, 0, a)
	}
	if a.IsConst() {
		return ConstBV(a.val, to)
	}
	return TS.intern(&Term{op: "zero_extend", sort: BV(to), args: []*Term{a}, p1: to - a.sort.W})
}

func SignExt(a *Term, to int) *Term {
	if to == a.sort.W {
		return a
	}
	if to < a.sort.W {
		return Extract(to-1, 0, a)
	}
	if a.IsConst() {
		return ConstBV(toSigned(a.val, a.sort.W), to)
	}
	return TS.intern(&Term{op: "sign_extend", sort: BV(to), args: []*Term{a}, p1: to - a.sort.W})
}

// UF application; decl is registered once.
func UF(name string, ret Sort, args ...*Term) *Term {
	if _, ok := TS.ufs[name]; !ok {
		var as []string
		for _, a := range args {
			as = append(as, a.sort.String())
		}
		TS.ufs[name] = fmt.Sprintf("(declare-fun %s (%s) %s)", name, strings.Join(as, " "), ret.String())
		TS.ufOrd = append(TS.ufOrd, name)
	}
	return TS.intern(&Term{op: "uf", name: name, sort: ret, args: args})
}

// ---------- printing ----------

func (t *Term) head() string {
	switch t.op {
	case "const":
		switch t.sort.K {
		case SBool:
			if t.val.Sign() != 0 {
				return "true"
			}
			return "false"
		case SBV:
			if t.sort.W%4 == 0 {
				return fmt.Sprintf("#x%0*s", t.sort.W/4, t.val.Text(16))
			}
			return fmt.Sprintf("#b%0*s", t.sort.W, t.val.Text(2))
		case SInt:
			if t.val.Sign() < 0 {
				return fmt.Sprintf("(- %s)", new(big.Int).Neg(t.val).String())
			}
			return t.val.String()
		}
	case "var":
		return symName(t.name)
	}
	return ""
}

// Printer emits define-funs incrementally for one solver session.
type Printer struct {
	defined map[int]bool
	out     *strings.Builder
	nuf     int
	nvar    int
}

func NewPrinter() *Printer { return &Printer{defined: map[int]bool{}, out: &strings.Builder{}} }

func (p *Printer) ref(t *Term) string {
	if t.op == "const" || t.op == "var" {
		return t.head()
	}
	return fmt.Sprintf("t%d", t.id)
}

// Define ensures t (and subterms) are defined; returns the reference string.
func (p *Printer) Define(t *Term) string {
	p.define(t)
	return p.ref(t)
}

func (p *Printer) define(t *Term) {
	if p.defined[t.id] {
		return
	}
	// iterative post-order to avoid deep recursion
	type fr struct {
		t *Term
		i int
	}
	st := []fr{{t, 0}}
	for len(st) > 0 {
		f := &st[len(st)-1]
		if p.defined[f.t.id] {
			st = st[:len(st)-1]
			continue
		}
		if f.i < len(f.t.args) {
			a := f.t.args[f.i]
			f.i++
			if !p.defined[a.id] {
				st = append(st, fr{a, 0})
			}
			continue
		}
		p.emit(f.t)
		p.defined[f.t.id] = true
		st = st[:len(st)-1]
	}
}

func (p *Printer) emit(t *Term) {
	switch t.op {
	case "const":
		return
	case "var":
		fmt.Fprintf(p.out, "(declare-const %s %s)\n", symName(t.name), t.sort)
		return
	case "uf":
		if p.nuf < len(TS.ufOrd) {
			for _, n := range TS.ufOrd[p.nuf:] {
				fmt.Fprintln(p.out, TS.ufs[n])
			}
			p.nuf = len(TS.ufOrd)
		}
	}
	var body string
	var as []string
	for _, a := range t.args {
		as = append(as, p.ref(a))
	}
	switch t.op {
	case "extract":
		body = fmt.Sprintf("((_ extract %d %d) %s)", t.p1, t.p2, as[0])
	case "zero_extend", "sign_extend":
		body = fmt.Sprintf("((_ %s %d) %s)", t.op, t.p1, as[0])
	case "uf":
		body = fmt.Sprintf("(%s %s)", t.name, strings.Join(as, " "))
	case "int2bv":
		body = fmt.Sprintf("((_ int2bv %d) %s)", t.p1, as[0])
	case "bv2nat":
		body = fmt.Sprintf("(bv2nat %s)", as[0])
	case "to_fp_signed":
		body = fmt.Sprintf("((_ to_fp 11 53) RNE %s)", as[0])
	case "to_fp_unsigned":
		body = fmt.Sprintf("((_ to_fp_unsigned 11 53) RNE %s)", as[0])
	case "fp.add", "fp.sub", "fp.mul", "fp.div":
		body = fmt.Sprintf("(%s RNE %s)", t.op, strings.Join(as, " "))
	case "fpconst":
		body = t.name
	case "durcall":
		// Duration.Hours/Minutes/Seconds(d): args = [d, the FP term the real stdlib code computes for d]
		body = as[1]
	default:
		body = fmt.Sprintf("(%s %s)", t.op, strings.Join(as, " "))
	}
	fmt.Fprintf(p.out, "(define-fun t%d () %s %s)\n", t.id, t.sort, body)
}

func (p *Printer) Flush() string {
	s := p.out.String()
	p.out.Reset()
	return s
}

// upperBound returns a cheap syntactic upper bound (unsigned) of a BV term.
func upperBound(t *Term) *big.Int {
	full := mask(t.sort.W)
	switch t.op {
	case "const":
		return t.val
	case "zero_extend":
		return upperBound(t.args[0])
	case "extract":
		m := mask(t.p1 - t.p2 + 1)
		if t.p2 == 0 {
			if u := upperBound(t.args[0]); u.Cmp(m) < 0 {
				return u
			}
		}
		return m
	case "bvlshr":
		if t.args[1].IsConst() && t.args[1].val.IsUint64() && t.args[1].val.Uint64() < 4096 {
			return new(big.Int).Rsh(upperBound(t.args[0]), uint(t.args[1].val.Uint64()))
		}
	case "bvand":
		a, b := upperBound(t.args[0]), upperBound(t.args[1])
		if a.Cmp(b) < 0 {
			return a
		}
		return b
	case "ite":
		a, b := upperBound(t.args[1]), upperBound(t.args[2])
		if a.Cmp(b) > 0 {
			return a
		}
		return b
	case "concat":
		// high part zero => bound of low part
		if t.args[0].IsConst() && t.args[0].val.Sign() == 0 {
			return upperBound(t.args[1])
		}
	}
	return full
}

// varsOf lists the variables occurring in t.
func varsOf(t *Term) []*Term {
	seen := map[int]bool{}
	var out []*Term
	var walk func(*Term)
	walk = func(x *Term) {
		if seen[x.id] {
			return
		}
		seen[x.id] = true
		if x.op == "var" {
			out = append(out, x)
		}
		for _, a := range x.args {
			walk(a)
		}
	}
	walk(t)
	return out
}

// evalTerm evaluates a (UF-free, FP-free) bit-vector/boolean term under a model; nil if it cannot.
func evalTerm(t *Term, m map[string]*big.Int) *big.Int {
	switch t.op {
	case "const":
		return t.val
	case "var":
		if v, ok := m[t.name]; ok {
			return v
		}
		return big.NewInt(0)
	}
	args := make([]*Term, len(t.args))
	for i, a := range t.args {
		v := evalTerm(a, m)
		if v == nil {
			return nil
		}
		if a.sort.K == SBool {
			args[i] = ConstBool(v.Sign() != 0)
		} else if a.sort.K == SBV {
			args[i] = ConstBV(v, a.sort.W)
		} else {
			return nil
		}
	}
	var r *Term
	switch t.op {
	case "not":
		r = Not(args[0])
	case "and":
		r = And(args[0], args[1])
	case "or":
		r = Or(args[0], args[1])
	case "ite":
		r = Ite(args[0], args[1], args[2])
	case "=":
		r = Eq(args[0], args[1])
	case "extract":
		r = Extract(t.p1, t.p2, args[0])
	case "concat":
		r = Concat(args[0], args[1])
	case "zero_extend":
		r = ZeroExt(args[0], t.sort.W)
	case "sign_extend":
		r = SignExt(args[0], t.sort.W)
	case "bvnot":
		r = BVNot(args[0])
	case "bvneg":
		r = BVNeg(args[0])
	case "bvult", "bvule", "bvugt", "bvuge", "bvslt", "bvsle", "bvsgt", "bvsge":
		r = bvcmp(t.op, args[0], args[1])
	default:
		if strings.HasPrefix(t.op, "bv") && len(args) == 2 {
			r = bvbin(t.op, args[0], args[1])
		}
	}
	if r == nil || !r.IsConst() {
		return nil
	}
	return r.val
}
